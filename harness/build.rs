//! Extracts the list of interned CGI variable names from the crate under test so that C19
//! enumerates every one of them (re-run whenever that file changes).
use std::io::Write;

fn main() {
    let src_path = "/repo/src/cgi/intern.rs";
    println!("cargo:rerun-if-changed={src_path}");
    println!("cargo:rustc-check-cfg=cfg(fastcgi_server_verif)");
    let src = std::fs::read_to_string(src_path).expect("read intern.rs");
    let start = src.find("pub enum StaticVarName").expect("enum StaticVarName");
    let body_start = src[start..].find('{').unwrap() + start + 1;
    let body_end = src[body_start..].find("\n}").unwrap() + body_start;
    let mut names = Vec::new();
    for line in src[body_start..body_end].lines() {
        let l = line.trim();
        if l.is_empty() || l.starts_with("//") || l.starts_with('#') {
            continue;
        }
        let ident: String = l.chars().take_while(|c| c.is_ascii_alphanumeric() || *c == '_').collect();
        if !ident.is_empty() && l[ident.len()..].trim_start().starts_with(',') {
            names.push(ident);
        }
    }
    assert!(names.len() > 50, "could not extract the interned names");
    let out = std::path::Path::new(&std::env::var("OUT_DIR").unwrap()).join("interned.rs");
    let mut f = std::fs::File::create(out).unwrap();
    writeln!(f, "pub const INTERNED: &[&str] = &[").unwrap();
    for n in names {
        writeln!(f, "    {n:?},").unwrap();
    }
    writeln!(f, "];").unwrap();
}
