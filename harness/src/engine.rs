//! Property-based testing engine: sharded proptest runners, evidence, replay, known findings,
//! panic capture and a CPU-time watchdog.

use std::cell::RefCell;
use std::collections::{BTreeMap, HashSet};
use std::hash::{Hash, Hasher};
use std::panic::{catch_unwind, AssertUnwindSafe};
use std::path::PathBuf;
use std::sync::atomic::{AtomicBool, AtomicU64, Ordering};
use std::sync::{Arc, Mutex};
use std::time::Instant;

use proptest::strategy::{BoxedStrategy, Strategy};
use proptest::test_runner::{
    Config, RngAlgorithm, TestCaseError, TestError, TestRng, TestRunner,
};
use serde::de::DeserializeOwned;
use serde::Serialize;
use serde_json::{json, Value};

pub const VERIF_ROOT: &str = "/verif";

#[derive(Clone, Copy, Debug, PartialEq, Eq)]
pub enum Tier {
    Quick,
    Thorough,
}

impl Tier {
    pub fn pick<T>(self, quick: T, thorough: T) -> T {
        match self {
            Tier::Quick => quick,
            Tier::Thorough => thorough,
        }
    }
    pub fn name(self) -> &'static str {
        self.pick("quick", "thorough")
    }
}

#[derive(Clone, Debug)]
pub struct Ctx {
    pub tier: Tier,
    pub seed: u64,
    pub shards: usize,
    /// Multiplier applied to case counts (VERIF_SCALE, for sensitivity experiments).
    pub scale: f64,
}

/// What a passing case tells the engine about itself.
#[derive(Default, Debug, Clone)]
pub struct Outcome {
    pub nontrivial: bool,
    pub labels: Vec<&'static str>,
    /// executions performed inside this case beyond the case itself (e.g. one per injected fault)
    pub extra_evals: u64,
}

impl Outcome {
    pub fn new(nontrivial: bool) -> Self {
        Self { nontrivial, labels: Vec::new(), extra_evals: 0 }
    }
    pub fn label(mut self, l: &'static str) -> Self {
        self.labels.push(l);
        self
    }
    pub fn label_if(mut self, c: bool, l: &'static str) -> Self {
        if c {
            self.labels.push(l);
        }
        self
    }
}

/// A failing case: `sig` names the root-cause class (used to match known findings),
/// `msg` is the human-readable explanation.
#[derive(Debug, Clone)]
pub struct Fail {
    pub sig: String,
    pub msg: String,
}

impl Fail {
    pub fn new(sig: impl Into<String>, msg: impl Into<String>) -> Self {
        Self { sig: sig.into(), msg: msg.into() }
    }
}

pub type TestResult = Result<Outcome, Fail>;

#[macro_export]
macro_rules! vfail {
    ($sig:expr, $($arg:tt)+) => {
        return Err($crate::engine::Fail::new($sig, format!($($arg)+)))
    };
}

#[macro_export]
macro_rules! vensure {
    ($cond:expr, $sig:expr, $($arg:tt)+) => {
        if !($cond) {
            return Err($crate::engine::Fail::new($sig, format!($($arg)+)));
        }
    };
}

// ---------------------------------------------------------------------------------------------
// Panic capture

thread_local! {
    static LAST_PANIC: RefCell<Option<String>> = const { RefCell::new(None) };
}

pub fn install_panic_hook() {
    std::panic::set_hook(Box::new(|info| {
        let s = info.to_string();
        LAST_PANIC.with(|p| *p.borrow_mut() = Some(s));
    }));
}

/// Runs `f`, converting a panic into `Err(message)`.
pub fn guard<T>(f: impl FnOnce() -> T) -> Result<T, String> {
    match catch_unwind(AssertUnwindSafe(f)) {
        Ok(v) => Ok(v),
        Err(p) => {
            let from_hook = LAST_PANIC.with(|p| p.borrow_mut().take());
            let msg = from_hook.unwrap_or_else(|| {
                if let Some(s) = p.downcast_ref::<&str>() {
                    (*s).to_string()
                } else if let Some(s) = p.downcast_ref::<String>() {
                    s.clone()
                } else {
                    "panic with non-string payload".to_string()
                }
            });
            Err(msg)
        },
    }
}

/// Runs a whole test function under panic capture: a panic anywhere is a failure `panic`.
pub fn guarded_test<C>(test: &(dyn Fn(&C) -> TestResult + Sync), case: &C) -> TestResult {
    match guard(|| test(case)) {
        Ok(r) => r,
        Err(msg) => Err(Fail::new("panic", format!("panic: {msg}"))),
    }
}

// ---------------------------------------------------------------------------------------------
// Watchdog (per-thread CPU time)

struct Slot {
    thread: libc::pthread_t,
    running: Option<(String, String, String, u64)>, // (property, sub, case json, cpu ns at start)
    /// watchdog bookkeeping: (start value identifying the execution, cpu ns at the last tick,
    /// accumulated cpu ns counted in steps of at most `TICK_CAP_NS`)
    seen: Option<(u64, u64, u64)>,
}

static SLOTS: Mutex<Vec<Arc<Mutex<Slot>>>> = Mutex::new(Vec::new());
static WATCHDOG_STARTED: AtomicBool = AtomicBool::new(false);
/// CPU seconds a single case may use before it is declared non-returning.
pub const CASE_CPU_LIMIT_S: u64 = 30;
/// A single watchdog tick never counts more CPU time than this: a jump of the thread clock (the
/// sandbox being paused for a snapshot charges the whole pause to the running thread) must not be
/// mistaken for a case that keeps computing. The limit therefore needs >= 15 consecutive ticks in
/// which the same execution was observed burning CPU.
const TICK_CAP_NS: u64 = 2_000_000_000;

thread_local! {
    static MY_SLOT: RefCell<Option<Arc<Mutex<Slot>>>> = const { RefCell::new(None) };
}

fn thread_cpu_ns(t: libc::pthread_t) -> Option<u64> {
    unsafe {
        let mut cid: libc::clockid_t = 0;
        if libc::pthread_getcpuclockid(t, &mut cid) != 0 {
            return None;
        }
        let mut ts = libc::timespec { tv_sec: 0, tv_nsec: 0 };
        if libc::clock_gettime(cid, &mut ts) != 0 {
            return None;
        }
        Some(ts.tv_sec as u64 * 1_000_000_000 + ts.tv_nsec as u64)
    }
}

fn my_slot() -> Arc<Mutex<Slot>> {
    MY_SLOT.with(|s| {
        let mut s = s.borrow_mut();
        if s.is_none() {
            let slot = Arc::new(Mutex::new(Slot {
                thread: unsafe { libc::pthread_self() },
                running: None,
                seen: None,
            }));
            SLOTS.lock().unwrap().push(slot.clone());
            *s = Some(slot);
        }
        s.clone().unwrap()
    })
}

fn start_watchdog() {
    if WATCHDOG_STARTED.swap(true, Ordering::SeqCst) {
        return;
    }
    std::thread::spawn(|| loop {
        std::thread::sleep(std::time::Duration::from_millis(1500));
        let slots: Vec<_> = SLOTS.lock().unwrap().clone();
        for s in slots {
            let mut g = s.lock().unwrap();
            let Some(start) = g.running.as_ref().map(|r| r.3) else {
                g.seen = None;
                continue;
            };
            let Some(now) = thread_cpu_ns(g.thread) else { continue };
            let acc = match g.seen {
                Some((id, last, acc)) if id == start => acc + now.saturating_sub(last).min(TICK_CAP_NS),
                _ => now.saturating_sub(start).min(TICK_CAP_NS),
            };
            g.seen = Some((start, now, acc));
            if let Some((prop, sub, case, _)) = &g.running {
                {
                    if acc > CASE_CPU_LIMIT_S * 1_000_000_000 {
                        let v: Value = serde_json::from_str(case).unwrap_or(Value::Null);
                        let path = write_replay(prop, sub, &v, "case did not return (CPU-time watchdog)");
                        println!(
                            "HANG property={prop} sub={sub}: a single case used more than {CASE_CPU_LIMIT_S}s of CPU time"
                        );
                        // Only C03 ("without ... hanging") and C12 ("without ... spinning") state
                        // termination; for every other property a case that does not return is
                        // reported as inconclusive (exit 2), never as a violation.
                        if matches!(prop.as_str(), "C03" | "C12") {
                            println!("VIOLATION property={prop} replay={}", path.display());
                            std::process::exit(1);
                        }
                        println!("INCONCLUSIVE property={prop} replay={} (no termination claim in this property)", path.display());
                        std::process::exit(2);
                    }
                }
            }
        }
    });
}

/// Called by checks that perform many independent executions inside one case (fault / shutdown
/// enumeration): the CPU-time limit then applies to each execution, not to the whole case.
pub fn heartbeat() {
    MY_SLOT.with(|s| {
        if let Some(slot) = s.borrow().as_ref() {
            let mut g = slot.lock().unwrap();
            let now = thread_cpu_ns(g.thread).unwrap_or(0);
            if let Some(r) = g.running.as_mut() {
                r.3 = now;
            }
        }
    });
}

struct RunningGuard(Arc<Mutex<Slot>>);
impl Drop for RunningGuard {
    fn drop(&mut self) {
        self.0.lock().unwrap().running = None;
    }
}

fn mark_running(prop: &str, sub: &str, case_json: &str) -> RunningGuard {
    let slot = my_slot();
    {
        let mut g = slot.lock().unwrap();
        let now = thread_cpu_ns(g.thread).unwrap_or(0);
        g.running = Some((prop.to_string(), sub.to_string(), case_json.to_string(), now));
    }
    RunningGuard(slot)
}

// ---------------------------------------------------------------------------------------------
// Known findings

#[derive(Debug, Clone, serde::Deserialize)]
pub struct KnownFinding {
    pub property: String,
    pub status: String, // "open" | "fixed"
    pub signature: String,
    #[serde(default)]
    pub commit: Option<String>,
    pub what: String,
}

pub fn load_known() -> Vec<KnownFinding> {
    let p = PathBuf::from(VERIF_ROOT).join("known_findings.json");
    match std::fs::read_to_string(&p) {
        Ok(s) => {
            #[derive(serde::Deserialize)]
            struct F {
                findings: Vec<KnownFinding>,
            }
            serde_json::from_str::<F>(&s).map(|f| f.findings).unwrap_or_else(|e| {
                eprintln!("known_findings.json unreadable: {e}");
                std::process::exit(2);
            })
        },
        Err(_) => Vec::new(),
    }
}

// ---------------------------------------------------------------------------------------------
// Reports

#[derive(Debug, Default)]
pub struct SubReport {
    pub name: String,
    pub rule: String,
    pub evaluations: u64,
    pub distinct_nontrivial: u64,
    pub labels: BTreeMap<String, u64>,
    pub samples: Vec<Value>,
    pub exhaustive: bool,
    pub excluded_known: BTreeMap<String, u64>,
    pub violation: Option<(PathBuf, String)>,
    pub wall_s: f64,
}

pub fn hash64<T: Hash>(v: &T) -> u64 {
    let mut h = std::collections::hash_map::DefaultHasher::new();
    v.hash(&mut h);
    h.finish()
}

fn derive_seed(seed: u64, prop: &str, sub: &str, shard: usize) -> [u8; 32] {
    let mut out = [0u8; 32];
    for i in 0..4u64 {
        let h = hash64(&(seed, prop, sub, shard as u64, i, 0x5eed_u64));
        out[(i as usize) * 8..(i as usize + 1) * 8].copy_from_slice(&h.to_le_bytes());
    }
    out
}

pub fn abbreviate(v: &Value) -> Value {
    match v {
        Value::String(s) if s.len() > 160 => {
            Value::String(format!("{}...({} chars)", &s[..s.char_indices().nth(120).map_or(s.len(), |c| c.0)], s.len()))
        },
        Value::Array(a) if a.len() > 40 => {
            let mut out: Vec<Value> = a.iter().take(32).map(abbreviate).collect();
            out.push(Value::String(format!("...({} items total)", a.len())));
            Value::Array(out)
        },
        Value::Array(a) => Value::Array(a.iter().map(abbreviate).collect()),
        Value::Object(o) => Value::Object(o.iter().map(|(k, v)| (k.clone(), abbreviate(v))).collect()),
        other => other.clone(),
    }
}

pub fn write_replay(prop: &str, sub: &str, case: &Value, msg: &str) -> PathBuf {
    let dir = std::env::var("VERIF_REPLAY_DIR").map(PathBuf::from).unwrap_or_else(|_| PathBuf::from(VERIF_ROOT).join("replays")).join(prop);
    let _ = std::fs::create_dir_all(&dir);
    let body = json!({ "property": prop, "sub": sub, "message": msg, "case": case });
    let text = serde_json::to_string_pretty(&body).unwrap();
    let h = hash64(&serde_json::to_string(case).unwrap());
    let path = dir.join(format!("{sub}-{h:016x}.json"));
    let _ = std::fs::write(&path, text);
    path
}

/// A registered sub-check.
pub trait Sub: Sync + Send {
    fn name(&self) -> &str;
    fn run(&self, prop: &str, ctx: &Ctx, known: &[KnownFinding]) -> SubReport;
    fn replay(&self, case: Value) -> Result<TestResult, String>;
}

// ---- generated (proptest) sub-check ----------------------------------------------------------

pub struct PropSub<C> {
    pub name: &'static str,
    pub rule: &'static str,
    pub quick: u64,
    pub thorough: u64,
    pub strategy: Box<dyn Fn(Tier) -> BoxedStrategy<C> + Sync + Send>,
    pub test: Box<dyn Fn(&C) -> TestResult + Sync + Send>,
    pub max_shrink_iters: u32,
}

struct Shared {
    failed: AtomicBool,
    evals: AtomicU64,
}

impl<C> Sub for PropSub<C>
where
    C: Serialize + DeserializeOwned + std::fmt::Debug + Clone + Send + 'static,
{
    fn name(&self) -> &str {
        self.name
    }

    fn run(&self, prop: &str, ctx: &Ctx, known: &[KnownFinding]) -> SubReport {
        start_watchdog();
        let t0 = Instant::now();
        let total = ((ctx.tier.pick(self.quick, self.thorough) as f64) * ctx.scale).ceil() as u64;
        let total = total.max(1);
        let shards = ctx.shards.min(total as usize).max(1);
        let per = total.div_ceil(shards as u64);
        let open: Vec<&KnownFinding> =
            known.iter().filter(|k| k.property == prop && k.status == "open").collect();

        struct ShardOut {
            distinct: HashSet<u64>,
            labels: BTreeMap<String, u64>,
            samples: Vec<Value>,
            excluded: BTreeMap<String, u64>,
            failure: Option<(Value, String)>,
        }

        let shared = Shared { failed: AtomicBool::new(false), evals: AtomicU64::new(0) };
        let outs: Vec<ShardOut> = std::thread::scope(|scope| {
            let handles: Vec<_> = (0..shards)
                .map(|shard| {
                    let shared = &shared;
                    let open = &open;
                    scope.spawn(move || {
                        let mut out = ShardOut {
                            distinct: HashSet::new(),
                            labels: BTreeMap::new(),
                            samples: Vec::new(),
                            excluded: BTreeMap::new(),
                            failure: None,
                        };
                        let strat = (self.strategy)(ctx.tier);
                        let cfg = Config {
                            cases: per as u32,
                            failure_persistence: None,
                            max_shrink_iters: self.max_shrink_iters,
                            max_shrink_time: 0,
                            ..Config::default()
                        };
                        let rng = TestRng::from_seed(
                            RngAlgorithm::ChaCha,
                            &derive_seed(ctx.seed, prop, self.name, shard),
                        );
                        let mut runner = TestRunner::new_with_rng(cfg, rng);
                        let local_failed = std::cell::Cell::new(false);
                        let out_cell = RefCell::new(&mut out);
                        let res = runner.run(&strat, |case| {
                            if !local_failed.get() && shared.failed.load(Ordering::Relaxed) {
                                // Another shard already found a violation: stop generating.
                                return Ok(());
                            }
                            let js = serde_json::to_string(&case).unwrap_or_default();
                            let _g = mark_running(prop, self.name, &js);
                            let r = guarded_test(&*self.test, &case);
                            let mut o = out_cell.borrow_mut();
                            match r {
                                Ok(outc) => {
                                    if !local_failed.get() {
                                        shared.evals.fetch_add(1 + outc.extra_evals, Ordering::Relaxed);
                                        for l in &outc.labels {
                                            *o.labels.entry((*l).to_string()).or_insert(0) += 1;
                                        }
                                        if outc.nontrivial {
                                            *o.labels.entry("nontrivial".into()).or_insert(0) += 1;
                                            let h = hash64(&js);
                                            if o.distinct.insert(h) && o.samples.len() < 2 {
                                                let v = serde_json::to_value(&case).unwrap_or(Value::Null);
                                                o.samples.push(abbreviate(&v));
                                            }
                                        }
                                    }
                                    Ok(())
                                },
                                Err(f) => {
                                    if let Some(k) = open.iter().find(|k| k.signature == f.sig) {
                                        // Listed finding: excluded from the search, counted.
                                        if !local_failed.get() {
                                            shared.evals.fetch_add(1, Ordering::Relaxed);
                                            *o.excluded.entry(k.signature.clone()).or_insert(0) += 1;
                                        }
                                        return Ok(());
                                    }
                                    if !local_failed.get() {
                                        shared.evals.fetch_add(1, Ordering::Relaxed);
                                    }
                                    local_failed.set(true);
                                    shared.failed.store(true, Ordering::Relaxed);
                                    Err(TestCaseError::fail(format!("[{}] {}", f.sig, f.msg)))
                                },
                            }
                        });
                        drop(out_cell);
                        if let Err(e) = res {
                            match e {
                                TestError::Fail(reason, case) => {
                                    let v = serde_json::to_value(&case).unwrap_or(Value::Null);
                                    out.failure = Some((v, reason.to_string()));
                                },
                                TestError::Abort(reason) => {
                                    eprintln!("proptest aborted in {prop}/{}: {reason}", self.name);
                                    std::process::exit(2);
                                },
                            }
                        }
                        out
                    })
                })
                .collect();
            handles.into_iter().map(|h| h.join().expect("shard thread panicked")).collect()
        });

        let mut rep = SubReport {
            name: self.name.to_string(),
            rule: self.rule.to_string(),
            evaluations: shared.evals.load(Ordering::Relaxed),
            ..Default::default()
        };
        let mut distinct: HashSet<u64> = HashSet::new();
        for o in outs {
            distinct.extend(o.distinct);
            for (k, v) in o.labels {
                *rep.labels.entry(k).or_insert(0) += v;
            }
            for (k, v) in o.excluded {
                *rep.excluded_known.entry(k).or_insert(0) += v;
            }
            if rep.samples.len() < 3 {
                rep.samples.extend(o.samples.into_iter().take(3 - rep.samples.len().min(3)));
            }
            if rep.violation.is_none() {
                if let Some((case, reason)) = o.failure {
                    let path = write_replay(prop, self.name, &case, &reason);
                    rep.violation = Some((path, reason));
                }
            }
        }
        rep.samples.truncate(3);
        rep.distinct_nontrivial = distinct.len() as u64;
        rep.wall_s = t0.elapsed().as_secs_f64();
        rep
    }

    fn replay(&self, case: Value) -> Result<TestResult, String> {
        let c: C = serde_json::from_value(case).map_err(|e| format!("cannot decode case: {e}"))?;
        Ok(guarded_test(&*self.test, &c))
    }
}

// ---- enumerated sub-check -------------------------------------------------------------------

/// Sink handed to enumeration bodies; `check` evaluates one element.
pub struct EnumSink<'a, C> {
    test: &'a (dyn Fn(&C) -> TestResult + Sync),
    pub evals: u64,
    pub nontrivial: u64,
    labels: BTreeMap<String, u64>,
    samples: Vec<Value>,
    failure: Option<(Value, String)>,
    stop: &'a AtomicBool,
    /// Evaluate through `catch_unwind` (costly in very tight loops; default on).
    pub guard_each: bool,
}

impl<C: Serialize> EnumSink<'_, C> {
    /// Returns `false` when enumeration should stop (failure here or elsewhere).
    pub fn check(&mut self, case: C) -> bool {
        if self.failure.is_some() {
            return false;
        }
        let r = if self.guard_each {
            guarded_test(self.test, &case)
        } else {
            (self.test)(&case)
        };
        self.evals += 1;
        match r {
            Ok(o) => {
                if o.nontrivial {
                    self.nontrivial += 1;
                    if self.samples.len() < 2 && (self.nontrivial % 97 == 1) {
                        self.samples.push(abbreviate(&serde_json::to_value(&case).unwrap_or(Value::Null)));
                    }
                }
                for l in o.labels {
                    *self.labels.entry(l.to_string()).or_insert(0) += 1;
                }
                (self.evals & 0xfff != 0) || !self.stop.load(Ordering::Relaxed)
            },
            Err(f) => {
                self.failure = Some((
                    serde_json::to_value(&case).unwrap_or(Value::Null),
                    format!("[{}] {}", f.sig, f.msg),
                ));
                self.stop.store(true, Ordering::Relaxed);
                false
            },
        }
    }
}

pub struct EnumSub<C> {
    pub name: &'static str,
    pub rule: &'static str,
    /// Whether the tier enumerates the complete finite domain named in `rule`.
    pub exhaustive: Box<dyn Fn(Tier) -> bool + Sync + Send>,
    /// `body(tier, shard, nshards, sink)` enumerates the shard's part of the domain; all elements
    /// are distinct by construction.
    pub body: Box<dyn Fn(Tier, usize, usize, &mut EnumSink<C>) + Sync + Send>,
    pub test: Box<dyn Fn(&C) -> TestResult + Sync + Send>,
    pub guard_each: bool,
}

impl<C> Sub for EnumSub<C>
where
    C: Serialize + DeserializeOwned + Send + 'static,
{
    fn name(&self) -> &str {
        self.name
    }

    fn run(&self, prop: &str, ctx: &Ctx, _known: &[KnownFinding]) -> SubReport {
        let t0 = Instant::now();
        let stop = AtomicBool::new(false);
        let shards = ctx.shards.max(1);
        let results: Vec<_> = std::thread::scope(|scope| {
            let hs: Vec<_> = (0..shards)
                .map(|shard| {
                    let stop = &stop;
                    scope.spawn(move || {
                        let mut sink = EnumSink {
                            test: &*self.test,
                            evals: 0,
                            nontrivial: 0,
                            labels: BTreeMap::new(),
                            samples: Vec::new(),
                            failure: None,
                            stop,
                            guard_each: self.guard_each,
                        };
                        let r = guard(|| (self.body)(ctx.tier, shard, shards, &mut sink));
                        if let Err(msg) = r {
                            if sink.failure.is_none() {
                                sink.failure = Some((Value::Null, format!("[panic] panic inside enumeration: {msg}")));
                            }
                        }
                        (sink.evals, sink.nontrivial, sink.labels, sink.samples, sink.failure)
                    })
                })
                .collect();
            hs.into_iter().map(|h| h.join().expect("enum shard panicked")).collect()
        });
        let mut rep = SubReport {
            name: self.name.to_string(),
            rule: self.rule.to_string(),
            exhaustive: (self.exhaustive)(ctx.tier),
            ..Default::default()
        };
        for (e, n, labels, samples, failure) in results {
            rep.evaluations += e;
            rep.distinct_nontrivial += n;
            for (k, v) in labels {
                *rep.labels.entry(k).or_insert(0) += v;
            }
            if rep.samples.len() < 3 {
                rep.samples.extend(samples);
            }
            if rep.violation.is_none() {
                if let Some((case, reason)) = failure {
                    let path = write_replay(prop, self.name, &case, &reason);
                    rep.violation = Some((path, reason));
                }
            }
        }
        rep.samples.truncate(3);
        rep.wall_s = t0.elapsed().as_secs_f64();
        rep
    }

    fn replay(&self, case: Value) -> Result<TestResult, String> {
        let c: C = serde_json::from_value(case).map_err(|e| format!("cannot decode case: {e}"))?;
        Ok(guarded_test(&*self.test, &c))
    }
}

// ---------------------------------------------------------------------------------------------
// Property = list of sub-checks + metadata

pub struct Property {
    pub id: &'static str,
    pub level: &'static str,
    pub assumptions: Vec<&'static str>,
    pub subs: Vec<Box<dyn Sub>>,
}

pub fn prop_sub<C>(
    name: &'static str,
    rule: &'static str,
    quick: u64,
    thorough: u64,
    strategy: impl Fn(Tier) -> BoxedStrategy<C> + Sync + Send + 'static,
    test: impl Fn(&C) -> TestResult + Sync + Send + 'static,
) -> Box<dyn Sub>
where
    C: Serialize + DeserializeOwned + std::fmt::Debug + Clone + Send + 'static,
{
    Box::new(PropSub {
        name,
        rule,
        quick,
        thorough,
        strategy: Box::new(strategy),
        test: Box::new(test),
        max_shrink_iters: 4000,
    })
}

pub fn boxed<S: Strategy + 'static>(s: S) -> BoxedStrategy<S::Value> {
    s.boxed()
}

/// Runs one property; returns the process exit code.
pub fn run_property(p: &Property, ctx: &Ctx, only_sub: Option<&str>) -> i32 {
    let known = load_known();
    let t0 = Instant::now();
    let mut reports = Vec::new();
    // Regression corpus first: saved (shrunk) cases of earlier findings, replayed without proptest.
    let mut regress_fail: Vec<(PathBuf, String)> = Vec::new();
    let mut regress_run = 0u64;
    let dir = PathBuf::from(VERIF_ROOT).join("regress").join(p.id);
    // VERIF_NO_REGRESS=1 (sensitivity evaluation only): skip the corpus, so that a change is judged
    // by the generated search alone and not by the saved cases of an earlier, similar change.
    if only_sub.is_none() && std::env::var_os("VERIF_NO_REGRESS").is_none() {
        if let Ok(rd) = std::fs::read_dir(&dir) {
            let mut files: Vec<PathBuf> = rd.filter_map(|e| e.ok().map(|e| e.path())).filter(|p| p.extension().is_some_and(|x| x == "json")).collect();
            files.sort();
            for f in files {
                let Ok(text) = std::fs::read_to_string(&f) else { continue };
                let Ok(v) = serde_json::from_str::<Value>(&text) else { continue };
                let Some(s) = p.subs.iter().find(|s| Some(s.name()) == v["sub"].as_str()) else { continue };
                regress_run += 1;
                start_watchdog();
                let _g = mark_running(p.id, s.name(), &v["case"].to_string());
                match s.replay(v["case"].clone()) {
                    Ok(Ok(_)) => {},
                    Ok(Err(fl)) => {
                        let known_open = known.iter().any(|k| k.property == p.id && k.status == "open" && k.signature == fl.sig);
                        if !known_open {
                            regress_fail.push((f.clone(), format!("[{}] {}", fl.sig, fl.msg)));
                        }
                    },
                    Err(e) => eprintln!("  regression file {} not decodable: {e}", f.display()),
                }
            }
        }
    }
    for s in &p.subs {
        if let Some(o) = only_sub {
            if s.name() != o {
                continue;
            }
        }
        let r = s.run(p.id, ctx, &known);
        eprintln!(
            "  [{}/{}] evals={} distinct_nontrivial={} wall={:.1}s{}",
            p.id,
            r.name,
            r.evaluations,
            r.distinct_nontrivial,
            r.wall_s,
            if r.violation.is_some() { " VIOLATION" } else { "" }
        );
        let failed = r.violation.is_some();
        reports.push(r);
        if failed {
            // a violation is a verdict: the remaining sub-checks (some of which wait on real
            // threads and can be very slow on a broken tree) are not needed to report it
            break;
        }
    }
    let mut exit = 0;
    let mut violations = 0;
    for (path, reason) in &regress_fail {
        println!("FAILURE property={} sub=regression reason={}", p.id, reason.replace('\n', " | "));
        println!("VIOLATION property={} replay={}", p.id, path.display());
        exit = 1;
        violations += 1;
    }
    if regress_run > 0 {
        eprintln!("  [{}/regression corpus] replayed={} failing={}", p.id, regress_run, regress_fail.len());
    }
    for r in &reports {
        if let Some((path, reason)) = &r.violation {
            println!("FAILURE property={} sub={} reason={}", p.id, r.name, reason.replace('\n', " | "));
            println!("VIOLATION property={} replay={}", p.id, path.display());
            exit = 1;
            violations += 1;
        }
    }
    // Known findings: announce each open finding for this property.
    for k in known.iter().filter(|k| k.property == p.id && k.status == "open") {
        println!("KNOWN-FINDING: property={} {}", p.id, k.what);
    }
    if only_sub.is_none() && std::env::var_os("VERIF_NO_EVIDENCE").is_none() {
        write_evidence(p, ctx, &reports, violations, t0.elapsed().as_secs_f64(), regress_run);
    }
    exit
}

fn write_evidence(p: &Property, ctx: &Ctx, reports: &[SubReport], violations: usize, wall: f64, regress_run: u64) {
    let evaluations: u64 = reports.iter().map(|r| r.evaluations).sum();
    let distinct: u64 = reports.iter().map(|r| r.distinct_nontrivial).sum();
    let mut labels = serde_json::Map::new();
    let mut samples = Vec::new();
    let mut rule = String::new();
    let mut subs = Vec::new();
    let mut excluded = serde_json::Map::new();
    for r in reports {
        for (k, v) in &r.labels {
            labels.insert(format!("{}:{}", r.name, k), json!(v));
        }
        for s in &r.samples {
            samples.push(json!({ "sub": r.name, "case": s }));
        }
        for (k, v) in &r.excluded_known {
            excluded.insert(k.clone(), json!(v));
        }
        rule.push_str(&format!("[{}] {} ", r.name, r.rule));
        subs.push(json!({
            "name": r.name, "evaluations": r.evaluations,
            "distinct_nontrivial": r.distinct_nontrivial, "exhaustive": r.exhaustive,
            "wall_s": (r.wall_s * 100.0).round() / 100.0,
        }));
    }
    let all_exhaustive = !reports.is_empty() && reports.iter().all(|r| r.exhaustive);
    let ev = json!({
        "property_id": p.id,
        "tier": ctx.tier.name(),
        "seed": ctx.seed,
        "level": p.level,
        "coverage": {
            "evaluations": evaluations,
            "distinct_nontrivial": distinct,
            "rule": rule.trim(),
            "samples": samples,
            "labels": labels,
            "exhaustive": all_exhaustive,
            "sub_checks": subs,
            "excluded_known": excluded,
            "shards": ctx.shards,
            "regression_replays": regress_run,
            "distinctness": "generated cases: 64-bit hash of the serialised case, counted only when non-trivial by the sub-check's rule; enumerated cases: distinct by construction",
        },
        "assumptions": p.assumptions,
        "wall_s": (wall * 100.0).round() / 100.0,
        "violations": violations,
    });
    let dir = PathBuf::from(VERIF_ROOT).join("evidence");
    let _ = std::fs::create_dir_all(&dir);
    let path = dir.join(format!("{}.json", p.id));
    std::fs::write(&path, serde_json::to_string_pretty(&ev).unwrap()).expect("write evidence");
}

pub fn replay_file(props: &[Property], path: &str) -> i32 {
    let text = match std::fs::read_to_string(path) {
        Ok(t) => t,
        Err(e) => {
            eprintln!("cannot read {path}: {e}");
            return 2;
        },
    };
    let v: Value = match serde_json::from_str(&text) {
        Ok(v) => v,
        Err(e) => {
            eprintln!("cannot parse {path}: {e}");
            return 2;
        },
    };
    let prop = v["property"].as_str().unwrap_or("");
    let sub = v["sub"].as_str().unwrap_or("");
    let Some(p) = props.iter().find(|p| p.id == prop) else {
        eprintln!("unknown property {prop}");
        return 2;
    };
    let Some(s) = p.subs.iter().find(|s| s.name() == sub) else {
        eprintln!("unknown sub-check {prop}/{sub}");
        return 2;
    };
    start_watchdog();
    let _g = mark_running(prop, sub, &v["case"].to_string());
    match s.replay(v["case"].clone()) {
        Err(e) => {
            eprintln!("{e}");
            2
        },
        Ok(Ok(o)) => {
            println!("replay passed: property={prop} sub={sub} nontrivial={} labels={:?}", o.nontrivial, o.labels);
            0
        },
        Ok(Err(f)) => {
            println!("FAILURE property={prop} sub={sub} reason=[{}] {}", f.sig, f.msg.replace('\n', " | "));
            println!("VIOLATION property={prop} replay={path}");
            1
        },
    }
}


// ---------------------------------------------------------------------------------------------
// Diagnostics are part of the code under test: the crate is built with `trace-more` and a
// subscriber that enables every callsite (and discards everything) is installed, so that the field
// expressions of every log statement are evaluated on every path the checks drive.

struct EvalAll;

impl tracing::Subscriber for EvalAll {
    fn enabled(&self, _: &tracing::Metadata<'_>) -> bool {
        true
    }
    fn new_span(&self, _: &tracing::span::Attributes<'_>) -> tracing::span::Id {
        tracing::span::Id::from_u64(1)
    }
    fn record(&self, _: &tracing::span::Id, _: &tracing::span::Record<'_>) {}
    fn record_follows_from(&self, _: &tracing::span::Id, _: &tracing::span::Id) {}
    fn event(&self, event: &tracing::Event<'_>) {
        // format the fields too (Display / Debug implementations run), into nothing
        struct V;
        impl tracing::field::Visit for V {
            fn record_debug(&mut self, _: &tracing::field::Field, value: &dyn std::fmt::Debug) {
                use std::fmt::Write;
                struct Null;
                impl Write for Null {
                    fn write_str(&mut self, _: &str) -> std::fmt::Result {
                        Ok(())
                    }
                }
                let _ = write!(Null, "{value:?}");
            }
        }
        event.record(&mut V);
    }
    fn enter(&self, _: &tracing::span::Id) {}
    fn exit(&self, _: &tracing::span::Id) {}
}

/// Installs the evaluate-everything subscriber (unless `VERIF_NO_TRACE` is set).
pub fn install_tracing() {
    if std::env::var_os("VERIF_NO_TRACE").is_none() {
        let _ = tracing::subscriber::set_global_default(EvalAll);
    }
}
