//! Shared proptest strategies and compact, serialisable descriptions of generated data.

use proptest::prelude::*;
use proptest::strategy::BoxedStrategy;
use serde::{Deserialize, Serialize};

use crate::wire::Hex;

/// A byte string described compactly: literal bytes or `len` pseudo-random bytes from `seed`.
#[derive(Clone, Debug, Serialize, Deserialize, PartialEq, Eq, Hash)]
pub enum Blob {
    Lit(Hex),
    Gen { len: u32, seed: u32 },
}

pub fn gen_bytes(len: usize, seed: u32) -> Vec<u8> {
    let mut x: u64 = 0x9e37_79b9_7f4a_7c15 ^ ((seed as u64) << 17) ^ (len as u64);
    let mut out = Vec::with_capacity(len);
    for _ in 0..len {
        x ^= x << 13;
        x ^= x >> 7;
        x ^= x << 17;
        out.push((x >> 24) as u8);
    }
    out
}

impl Blob {
    pub fn bytes(&self) -> Vec<u8> {
        match self {
            Blob::Lit(h) => h.0.clone(),
            Blob::Gen { len, seed } => {
                let mut v = gen_bytes(*len as usize, *seed);
                // one generated blob in sixteen looks like protocol: every other 8-byte block is a
                // record header (ids 1 and 0, all phases' record types), so that payload bytes a
                // parser wrongly interprets as records are plausible ones
                if *seed % 16 == 7 && v.len() >= 16 {
                    let mut k = 0usize;
                    while (k + 1) * 8 <= v.len() {
                        if k % 2 == 0 {
                            let t = [4u8, 5, 2, 1, 8, 9, 4, 11][(*seed as usize / 16 + k / 2) % 8];
                            let id = if (*seed / 128) % 4 == 0 { 0u8 } else { 1 };
                            v[k * 8..k * 8 + 8].copy_from_slice(&[1, t, 0, id, 0, 0, (*seed >> 12) as u8 % 3, 0]);
                        }
                        k += 1;
                    }
                }
                v
            },
        }
    }
    pub fn len(&self) -> usize {
        match self {
            Blob::Lit(h) => h.0.len(),
            Blob::Gen { len, .. } => *len as usize,
        }
    }
    pub fn lit(b: &[u8]) -> Self {
        Blob::Lit(Hex(b.to_vec()))
    }
}

/// Monotone index mapping (keeps shrinking effective): maps a u16 to 0..len.
pub fn idx(i: u16, len: usize) -> usize {
    if len == 0 {
        0
    } else {
        ((i as usize) * len) >> 16
    }
}

/// Lengths around the interesting boundaries of the name-value encoding.
pub fn nv_len(max: u32) -> BoxedStrategy<u32> {
    prop_oneof![
        6 => 0u32..=20,
        2 => 20u32..=125,
        4 => 126u32..=130,
        2 => 131u32..=600,
        1 => 600u32..=5000,
    ]
    .prop_map(move |v| v.min(max))
    .boxed()
}

pub fn small_blob(max: u32) -> BoxedStrategy<Blob> {
    prop_oneof![
        3 => proptest::collection::vec(any::<u8>(), 0..12).prop_map(|v| Blob::Lit(Hex(v))),
        4 => (nv_len(max), any::<u32>()).prop_map(|(len, seed)| Blob::Gen { len, seed }),
    ]
    .boxed()
}

/// Variable names handed to the parsers: interned CGI names in assorted case patterns, ASCII,
/// non-UTF-8, empty, long.
pub const SOME_INTERNED: &[&str] = &[
    "CONTENT_LENGTH", "REQUEST_METHOD", "HTTP_HOST", "GATEWAY_INTERFACE", "HTTPS", "HTTP2",
    "QUERY_STRING", "HTTP_X_FORWARDED_FOR", "HTTP_SERVICE_WORKER_NAVIGATION_PRELOAD", "HTTP",
    "SCRIPT_NAME", "HTTP_COOKIE", "IPV6", "HTTP_DNT",
];

pub fn apply_case(s: &str, pat: u32) -> Vec<u8> {
    s.bytes()
        .enumerate()
        .map(|(i, b)| match pat % 4 {
            0 => b,
            1 => b.to_ascii_lowercase(),
            2 => {
                if (pat >> (4 + (i % 24))) & 1 == 1 { b.to_ascii_lowercase() } else { b }
            },
            _ => {
                if i % 2 == 0 { b.to_ascii_lowercase() } else { b }
            },
        })
        .collect()
}

pub fn var_name() -> BoxedStrategy<Blob> {
    prop_oneof![
        4 => (any::<u16>(), any::<u32>()).prop_map(|(i, pat)| {
            Blob::lit(&apply_case(SOME_INTERNED[idx(i, SOME_INTERNED.len())], pat))
        }),
        3 => "[A-Za-z_][A-Za-z0-9_-]{0,24}".prop_map(|s| Blob::lit(s.as_bytes())),
        1 => Just(Blob::lit(b"")),
        2 => proptest::collection::vec(any::<u8>(), 1..10).prop_map(|v| Blob::Lit(Hex(v))),
        // truncated multi-byte / invalid UTF-8 embedded in ASCII
        1 => ("[a-zA-Z_]{0,6}", prop_oneof![Just(vec![0xffu8, 0xfe]), Just(vec![0xc3]), Just(vec![0xe2, 0x82]), Just(vec![0xf0, 0x9f, 0x98]), Just(vec![0xc3, 0xa4])], "[a-zA-Z_]{0,6}")
            .prop_map(|(a, m, b)| { let mut v = a.into_bytes(); v.extend(m); v.extend(b.into_bytes()); Blob::Lit(Hex(v)) }),
        2 => (nv_len(400), any::<u32>()).prop_map(|(len, seed)| Blob::Gen { len, seed }),
    ]
    .boxed()
}

/// Chunking pattern: read sizes applied cyclically.
#[derive(Clone, Debug, Serialize, Deserialize, PartialEq, Eq, Hash)]
pub enum Chunking {
    /// As much as the buffer takes.
    Max,
    /// One byte at a time.
    One,
    /// Sizes applied cyclically (each >= 1).
    Cycle(Vec<u16>),
}

impl Chunking {
    pub fn size(&self, call: usize) -> usize {
        match self {
            Chunking::Max => usize::MAX,
            Chunking::One => 1,
            Chunking::Cycle(v) if v.is_empty() => usize::MAX,
            Chunking::Cycle(v) => (v[call % v.len()] as usize).max(1),
        }
    }
}

pub fn chunking() -> BoxedStrategy<Chunking> {
    prop_oneof![
        2 => Just(Chunking::Max),
        2 => Just(Chunking::One),
        3 => proptest::collection::vec(1u16..=9, 1..6).prop_map(Chunking::Cycle),
        3 => proptest::collection::vec(prop_oneof![1u16..=40, 40u16..=700], 1..6).prop_map(Chunking::Cycle),
        1 => proptest::collection::vec(1u16..=u16::MAX, 1..4).prop_map(Chunking::Cycle),
    ]
    .boxed()
}
