//! Verification harness library (shared by the `verif-check` binary and the fuzz targets).
#![allow(clippy::all)]
pub mod engine;
pub mod wire;
pub mod gen;
pub mod model;
pub mod traffic;
pub mod syncdrv;
pub mod aio;
pub mod conn;
pub mod props;
