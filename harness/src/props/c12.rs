//! C12 — transport EOF or error at any point ends the connection cleanly (fault enumeration).

use std::io::ErrorKind;

use proptest::prelude::*;

use crate::aio::{FaultKind, IoFault, RunEnd};
use crate::conn::{self, Built, ConnCase, ConnModel, Kind};
use crate::engine::*;
use crate::wire;
use crate::{vensure, vfail};

const MAX_POINTS_PER_KIND: usize = 1200;

fn points(n: usize) -> Vec<usize> {
    if n <= MAX_POINTS_PER_KIND {
        (0..n).collect()
    } else {
        // every point near the ends, evenly spaced in between
        let mut v: Vec<usize> = (0..200).chain(n - 200..n).collect();
        let step = (n - 400) / (MAX_POINTS_PER_KIND - 400);
        v.extend((200..n - 200).step_by(step.max(1)));
        v.sort_unstable();
        v.dedup();
        v
    }
}

/// EOF offsets: everything for short scripts; otherwise every offset around each record's header,
/// payload start, payload end and padding, plus an even sample of the rest.
fn eof_points(b: &Built, n: usize) -> Vec<usize> {
    if n <= MAX_POINTS_PER_KIND {
        return (0..n).collect();
    }
    let mut v: Vec<usize> = Vec::new();
    for (i, r) in b.recs.iter().enumerate() {
        let s = b.offs[i];
        let pe = s + 8 + r.payload.len();
        v.extend(s.saturating_sub(2)..(s + 14).min(n));
        v.extend(pe.saturating_sub(3)..(pe + 3).min(n));
        let end = pe + r.pad as usize;
        v.extend(end.saturating_sub(2)..(end + 2).min(n));
    }
    let step = (n / 300).max(1);
    v.extend((0..n).step_by(step));
    v.sort_unstable();
    v.dedup();
    v
}

fn check_faulted(c: &ConnCase, b: &Built, m: &ConnModel, fault: &IoFault) -> Result<(), Fail> {
    heartbeat();
    let ctx = format!("[fault {fault:?}]");
    let r = conn::run_conn(c, b, fault.clone(), |_, _| None).map_err(|f| Fail::new(f.sig, format!("{ctx} {}", f.msg)))?;
    let w = r.world.lock().unwrap();
    match r.end {
        RunEnd::Finished => {},
        // A handler that swallows a write error leaves a torn record on the wire; client and server
        // may then legitimately wait for each other. That is the handler's doing, not the library's.
        RunEnd::Idle if !c.propagate && w.failed_write_at_log_len.is_some() => return Ok(()),
        RunEnd::Idle => vfail!("c12-hang", "{ctx} connection task is suspended forever (client bytes read {}/{}, log {} bytes, peer waiting: {})", w.read_pos, w.client.len(), w.log.len(), w.peer_waiting()),
        RunEnd::StepLimit => vfail!("c12-spin", "{ctx} connection task still running after {} polls", r.steps),
    }
    // no handler invocation for a preamble that did not arrive completely
    let complete_preambles = b.spans.iter().zip(&b.kinds).filter(|((_, pre_end, _, _), k)| **k != Kind::ParamsAbort && b.offs[*pre_end] <= w.read_pos).count();
    vensure!(r.invocations.len() <= complete_preambles, "c12-handler-for-incomplete-preamble", "{ctx} handler invoked {} times but only {complete_preambles} preamble(s) arrived completely ({} client bytes delivered)", r.invocations.len(), w.read_pos);
    // what the handlers saw
    let injected: Vec<ErrorKind> = match fault {
        IoFault::EofAt(_) => vec![ErrorKind::UnexpectedEof],
        IoFault::ReadErr { kind, .. } => vec![kind.kind()],
        IoFault::WriteErr { kind, .. } => vec![kind.kind()],
        IoFault::WriteZero { .. } => vec![ErrorKind::WriteZero],
        IoFault::None => vec![],
    };
    let mut j = 0usize;
    for (i, k) in b.kinds.iter().enumerate() {
        if *k == Kind::ParamsAbort {
            continue;
        }
        let Some(inv) = r.invocations.get(j) else { break };
        j += 1;
        let me = &m.reqs[i];
        vensure!(inv.env == me.model.env && inv.role == me.model.role, "conn-request-env", "{ctx} request #{i}: handler saw a different request than was sent");
        let (_, pre_end, _, _) = b.spans[i];
        for (s, got) in &inv.reads {
            let Some(want) = me.streams.content.get(s) else { vfail!("conn-read-foreign-stream", "{ctx} request #{i}: {} bytes read for stream {s} outside the role", got.len()) };
            vensure!(got.len() <= want.len() && want[..got.len()] == got[..], "conn-read-content", "{ctx} request #{i}: bytes read from stream {s} are not a prefix of what the client sent");
            if inv.eof_seen.get(s) == Some(&true) {
                // a successful end-of-file needs the stream's real end to have been delivered
                let end_ok = me.streams.end_rec.get(s).is_some_and(|&ri| b.offs[pre_end + ri] + 8 <= w.read_pos);
                vensure!(end_ok && got.len() == want.len(), "c12-clean-eof-on-truncated-stream", "{ctx} request #{i}: handler got a successful end-of-file on stream {s} after {} of {} bytes although the stream's end record was not delivered ({} client bytes delivered)", got.len(), want.len(), w.read_pos);
            }
        }
        vensure!(!inv.data_after_eof, "conn-eof-not-persistent", "{ctx} request #{i}: data after end-of-file");
        for (st, kind) in inv.read_errors.iter().map(|(s, k)| (*s, *k)).chain(inv.write_errors.iter().map(|k| (None, *k))) {
            let aborted = *k == Kind::StreamAbort && kind == ErrorKind::ConnectionAborted;
            vensure!(injected.contains(&kind) || aborted, "c12-wrong-error-kind", "{ctx} request #{i}: handler saw {kind:?} (active stream {st:?}); the transport fault should surface as one of {injected:?}");
        }
    }
    // the log: a prefix of a well-formed record sequence
    if c.propagate {
        let (recs, _used) = wire::decode_log(&w.log).map_err(|e| Fail::new("c12-log-malformed", format!("{ctx} {e}")))?;
        if let Some(at) = w.failed_write_at_log_len {
            vensure!(w.log.len() == at, "c12-write-after-failure", "{ctx} {} bytes were written after the failed write (handlers propagate errors)", w.log.len() - at);
        }
        let ids: Vec<u16> = c.reqs.iter().map(|q| q.pre.id).collect();
        let view = conn::LogView { recs, complete_len: 0, total_len: 0 };
        conn::check_grammar(&view, &ids, &|_| true).map_err(|f| Fail::new(f.sig, format!("{ctx} {}", f.msg)))?;
    }
    Ok(())
}

fn test(c: &ConnCase) -> TestResult {
    let b = conn::build(c);
    let m = conn::conn_model(c, &b)?;
    // fault-free reference run: only to learn N, R, W
    let r0 = conn::run_conn(c, &b, IoFault::None, |_, _| None)?;
    conn::check_clean_run(c, &b, &m, &r0)?;
    let (n_bytes, n_reads, n_writes) = {
        let w = r0.world.lock().unwrap();
        (w.client.len(), w.read_calls, w.write_calls)
    };
    let kinds = [FaultKind::BrokenPipe, FaultKind::ConnectionReset, FaultKind::TimedOut, FaultKind::Other];
    let mut runs = 0u64;
    for k in eof_points(&b, n_bytes + 1) {
        check_faulted(c, &b, &m, &IoFault::EofAt(k as u32))?;
        runs += 1;
    }
    for k in points(n_reads + 1) {
        check_faulted(c, &b, &m, &IoFault::ReadErr { call: k as u32, kind: kinds[k % 4] })?;
        runs += 1;
    }
    for k in points(n_writes + 1) {
        check_faulted(c, &b, &m, &IoFault::WriteErr { call: k as u32, kind: kinds[(k + 1) % 4] })?;
        check_faulted(c, &b, &m, &IoFault::WriteZero { call: k as u32 })?;
        runs += 2;
    }
    let mut o = Outcome::new(n_bytes >= 40 && n_writes >= 2)
        .label_if(c.propagate, "handlers-propagate-errors")
        .label_if(r0.invocations.len() >= 2, "multi-request-script")
        .label_if(!b.queries.is_empty(), "management-queries")
        .label_if(r0.invocations.iter().any(|i| !i.writes.is_empty()), "handler-output");
    o.extra_evals = runs;
    Ok(o)
}

fn strategy() -> BoxedStrategy<ConnCase> {
    // C07 scripts, kept small so that every fault point can be enumerated
    conn::conn_case(2, false, Just(false).boxed())
        .prop_map(|mut c| {
            let mut jumbo = false;
            for q in &mut c.reqs {
                for s in &mut q.body.streams {
                    s.lens.truncate(3);
                    for (i, l) in s.lens.iter_mut().enumerate() {
                        // keep an occasional record at the 16-bit limit (with its padding)
                        if *l >= 65281 && s.pads.get(i).is_some_and(|p| *p > 0) && !jumbo {
                            jumbo = true;
                        } else {
                            *l = (*l % 300).max(1);
                        }
                    }
                }
                let shrink = |n: &mut crate::traffic::Noise| match n {
                    crate::traffic::Noise::UnknownType { len, .. } | crate::traffic::Noise::Foreign { len, .. } | crate::traffic::Noise::ClientOutput { len, .. } | crate::traffic::Noise::StaleParams { len, .. } => *len %= 300,
                    _ => {},
                };
                q.pre_noise.iter_mut().for_each(|(_, n)| shrink(n));
                q.body.noise.iter_mut().for_each(|(_, n)| shrink(n));
                q.after.iter_mut().for_each(shrink);
                for p in &mut q.pre.params.pairs {
                    if p.value.len() > 64 {
                        p.value = crate::gen::Blob::Gen { len: 64, seed: 1 };
                    }
                    if p.name.len() > 64 {
                        p.name = crate::gen::Blob::Gen { len: 40, seed: 2 };
                    }
                }
                for op in &mut q.handler {
                    match op {
                        crate::aio::HOp::Write { len, .. } | crate::aio::HOp::WriteAll { len, .. } => *len %= 400,
                        _ => {},
                    }
                }
            }
            c.tail.iter_mut().for_each(|n| if let crate::traffic::Noise::UnknownType { len, .. } | crate::traffic::Noise::Foreign { len, .. } | crate::traffic::Noise::ClientOutput { len, .. } | crate::traffic::Noise::StaleParams { len, .. } = n { *len %= 300 });
            if jumbo {
                // a 64 KiB record is only affordable with whole-buffer transfers
                c.read_script = vec![crate::aio::RStep::Give(u16::MAX)];
                c.write_script = vec![crate::aio::WStep::Accept(u16::MAX)];
                c.buf = 8192;
            }
            c
        })
        .boxed()
}

pub fn property() -> Property {
    Property {
        id: "C12",
        level: "fault_enumeration",
        assumptions: vec![
            "per generated connection script a fault-free reference run determines N (client bytes), R (read calls), W (write calls); then EOF is injected at every byte offset 0..=N, a read error at every read-call index 0..=R, a write error and a zero-length write at every write-call index 0..=W (beyond 1200 points per kind: both ends densely, the middle evenly sampled)",
            "the reference run is not an oracle for the faulted runs (a fault legitimately changes what happens afterwards); the oracle is: termination within the step bound, handler invocations <= completely delivered preambles, reads are prefixes, a successful end-of-file only after the stream's end record was delivered, error kinds = the injected one / UnexpectedEof / WriteZero, and for propagating handlers nothing on the log after the failed write and a well-formed record prefix",
            "transport errors are one-shot (the call with the given index fails; later calls would succeed), EOF is permanent",
        ],
        subs: vec![prop_sub(
            "faults",
            "small C07 connection scripts (1..2 requests, all roles, handler scripts, management records, reader/writer scripts) x every fault point of four kinds; evaluations count the injected executions; non-trivial = script with >= 40 client bytes and >= 2 write calls; distinct = hash of the script",
            400,
            8_000,
            |_| strategy(),
            test,
        )],
    }
}
