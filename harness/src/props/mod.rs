use crate::engine::Property;

pub mod c15;
pub mod c16;
pub mod c17;

pub fn all() -> Vec<Property> {
    vec![c15::property(), c16::property(), c17::property()]
}
