use crate::engine::Property;

pub mod c15;

pub fn all() -> Vec<Property> {
    vec![c15::property()]
}
