//! C17 — record headers, fixed bodies and generated replies encode exactly as specified.
//! Mostly whole-field / whole-table enumerations against the independent codec.

use std::num::NonZeroUsize;

use fastcgi_server::protocol::body::{BeginRequest, EndRequest, UnknownType};
use fastcgi_server::protocol::{
    Error as PErr, ProtocolStatus, ProtocolVariables, RecordHeader, RecordType, RequestFlags, Role,
    Version,
};
use fastcgi_server::{Config, ExitStatus};
use serde::{Deserialize, Serialize};
use smallvec::SmallVec;

use crate::engine::*;
use crate::wire;
use crate::{vensure, vfail};

#[derive(Clone, Debug, Serialize, Deserialize)]
enum Case {
    /// Decode these 8 header bytes.
    HeaderBytes([u8; 8]),
    /// Encode this header value.
    HeaderVal { ty: u8, id: u16, len: u16, pad: u8 },
    SetLengths(u16),
    PaddingBytes(u8),
    BeginBytes([u8; 8]),
    BeginRec { role: u16, flags: u8, id: u16 },
    EndBytes([u8; 8]),
    EndRec { app: u32, st: u8, id: u16 },
    Unknown { ty: u8, id: u16, junk: u8 },
    Exit { variant: u8, code: u32 },
    Vars { subset: u8, conns: u64, prefill: u16, target: u8 },
    /// Several replies generated one after the other on the same thread (limit, subset, target).
    VarsSeq(Vec<(u64, u8, u8)>),
    Name(String),
}

fn rtype_of(b: u8) -> Option<RecordType> {
    RecordType::try_from(b).ok()
}

fn test_case(c: &Case) -> TestResult {
    match c {
        Case::HeaderBytes(b) => {
            let b = *b;
            let r = RecordHeader::from_bytes(b);
            let version_ok = b[0] == 1;
            let type_ok = (1..=11).contains(&b[1]);
            match r {
                Ok(h) => {
                    vensure!(version_ok && type_ok, "c17-header-accepts", "from_bytes accepted version {} type {}", b[0], b[1]);
                    vensure!(u8::from(h.version) == 1 && u8::from(h.rtype) == b[1], "c17-header-fields", "version/type decoded wrongly from {b:02x?}");
                    vensure!(h.request_id == u16::from_be_bytes([b[2], b[3]]), "c17-header-fields", "request id decoded as {} from {b:02x?}", h.request_id);
                    vensure!(h.content_length == u16::from_be_bytes([b[4], b[5]]), "c17-header-fields", "content length decoded as {} from {b:02x?}", h.content_length);
                    vensure!(h.padding_length == b[6], "c17-header-fields", "padding length decoded as {} from {b:02x?}", h.padding_length);
                    let mut exp = b;
                    exp[7] = 0;
                    vensure!(h.to_bytes() == exp, "c17-header-reencode", "re-encoding of {b:02x?} gave {:02x?}", h.to_bytes());
                    let mgmt = [9u8, 10, 11].contains(&b[1]) && h.request_id == 0;
                    vensure!(h.is_management() == mgmt, "c17-is-management", "is_management() = {} for type {} id {}", h.is_management(), b[1], h.request_id);
                },
                Err(PErr::UnknownVersion(v)) => {
                    vensure!(!version_ok && v == b[0], "c17-header-rejects", "UnknownVersion({v}) for {b:02x?}");
                },
                Err(PErr::UnknownRecordType(t)) => {
                    vensure!(version_ok && !type_ok && t == b[1], "c17-header-rejects", "UnknownRecordType({t}) for {b:02x?} (version must be checked first)");
                },
                Err(e) => vfail!("c17-header-rejects", "unexpected error {e:?} for {b:02x?}"),
            }
            Ok(Outcome::new(true).label_if(!version_ok, "bad-version").label_if(version_ok && !type_ok, "bad-type"))
        },
        Case::HeaderVal { ty, id, len, pad } => {
            let Some(rt) = rtype_of(*ty) else { vfail!("c17-rtype", "RecordType::try_from({ty}) failed for a valid type") };
            vensure!(u8::from(rt) == *ty, "c17-rtype", "RecordType round-trip {ty} -> {}", u8::from(rt));
            let h = RecordHeader { version: Version::V1, rtype: rt, request_id: *id, content_length: *len, padding_length: *pad };
            let exp = [1, *ty, (*id >> 8) as u8, *id as u8, (*len >> 8) as u8, *len as u8, *pad, 0];
            vensure!(h.to_bytes() == exp, "c17-header-encode", "to_bytes of {h:?} = {:02x?}, expected {exp:02x?}", h.to_bytes());
            match RecordHeader::from_bytes(h.to_bytes()) {
                Ok(back) => vensure!(back == h, "c17-header-roundtrip", "{h:?} decoded back as {back:?}"),
                Err(e) => vfail!("c17-header-roundtrip", "{h:?} does not decode: {e:?}"),
            }
            let n = RecordHeader::new(rt, *id);
            vensure!(n.version == Version::V1 && n.rtype == rt && n.request_id == *id && n.content_length == 0 && n.padding_length == 0, "c17-header-new", "RecordHeader::new gives {n:?}");
            vensure!(rt.is_management() == [9u8, 10, 11].contains(ty), "c17-is-management", "RecordType::is_management wrong for {ty}");
            vensure!(rt.is_input_stream() == [5u8, 8].contains(ty), "c17-stream-class", "is_input_stream wrong for {ty}");
            vensure!(rt.is_output_stream() == [6u8, 7].contains(ty), "c17-stream-class", "is_output_stream wrong for {ty}");
            Ok(Outcome::new(true))
        },
        Case::SetLengths(len) => {
            let mut h = RecordHeader::new(RecordType::Stdout, 7);
            h.padding_length = 0xEE;
            h.set_lengths(*len);
            vensure!(h.content_length == *len, "c17-set-lengths", "set_lengths({len}) stored content_length {}", h.content_length);
            vensure!(h.padding_length < 8, "c17-padding-rule", "set_lengths({len}) chose padding {}", h.padding_length);
            vensure!((*len as u32 + h.padding_length as u32) % 8 == 0, "c17-padding-rule", "content {len} + padding {} is not a multiple of 8", h.padding_length);
            vensure!(h.padding_bytes().len() == h.padding_length as usize && h.padding_bytes().iter().all(|&b| b == 0), "c17-padding-bytes", "padding_bytes wrong for {len}");
            Ok(Outcome::new(true))
        },
        Case::PaddingBytes(p) => {
            let h = RecordHeader { version: Version::V1, rtype: RecordType::Stderr, request_id: 1, content_length: 3, padding_length: *p };
            vensure!(h.padding_bytes().len() == *p as usize && h.padding_bytes().iter().all(|&b| b == 0), "c17-padding-bytes", "padding_bytes() for {p} has length {}", h.padding_bytes().len());
            Ok(Outcome::new(true))
        },
        Case::BeginBytes(b) => {
            let role = u16::from_be_bytes([b[0], b[1]]);
            let r = BeginRequest::from_bytes(*b);
            let rr = Role::try_from(role);
            vensure!(rr.is_ok() == (1..=3).contains(&role), "c17-role", "Role::try_from({role}).is_ok() = {}", rr.is_ok());
            if let Err(e) = &rr {
                vensure!(matches!(e, PErr::UnknownRole(x) if *x == role), "c17-role", "Role::try_from({role}) error {e:?}");
            }
            match r {
                Ok(body) => {
                    vensure!((1..=3).contains(&role), "c17-begin-accepts", "BeginRequest::from_bytes accepted role {role}");
                    vensure!(u16::from(body.role) == role, "c17-begin-fields", "role {role} decoded as {:?}", body.role);
                    vensure!(body.flags.bits() == b[2], "c17-begin-fields", "flag byte {:#x} decoded as {:#x}", b[2], body.flags.bits());
                    vensure!(u8::from(body.flags) == b[2] && RequestFlags::from(b[2]) == body.flags, "c17-flags", "flag conversions disagree for {:#x}", b[2]);
                    let exp = [b[0], b[1], b[2], 0, 0, 0, 0, 0];
                    vensure!(body.to_bytes() == exp, "c17-begin-reencode", "re-encoding of {b:02x?} gave {:02x?}", body.to_bytes());
                    let unk = b[2] & !1;
                    match body.flags.validate() {
                        Ok(()) => vensure!(unk == 0, "c17-flags-validate", "validate() accepted flags {:#x}", b[2]),
                        Err(PErr::UnknownFlags(u)) => vensure!(unk != 0 && u == unk, "c17-flags-validate", "validate() reported {u:#x} for flags {:#x}", b[2]),
                        Err(e) => vfail!("c17-flags-validate", "validate() error {e:?}"),
                    }
                    vensure!(body.flags.contains(RequestFlags::KeepConn) == (b[2] & 1 == 1), "c17-flags", "KeepConn test wrong for {:#x}", b[2]);
                },
                Err(PErr::UnknownRole(x)) => vensure!(!(1..=3).contains(&role) && x == role, "c17-begin-rejects", "UnknownRole({x}) for role {role}"),
                Err(e) => vfail!("c17-begin-rejects", "unexpected error {e:?}"),
            }
            Ok(Outcome::new(true).label_if((1..=3).contains(&role), "valid-role"))
        },
        Case::BeginRec { role, flags, id } => {
            let body = BeginRequest { role: Role::try_from(*role).map_err(|_| Fail::new("c17-role", "valid role rejected"))?, flags: RequestFlags::from(*flags) };
            let rec = body.to_record(*id);
            let mut exp = vec![1, 1, (*id >> 8) as u8, *id as u8, 0, 8, 0, 0];
            exp.extend_from_slice(&[(*role >> 8) as u8, *role as u8, *flags, 0, 0, 0, 0, 0]);
            vensure!(rec[..] == exp[..], "c17-begin-record", "to_record({id}) of role {role} flags {flags:#x} = {rec:02x?}");
            match BeginRequest::from_bytes(body.to_bytes()) {
                Ok(back) => vensure!(back == body, "c17-begin-roundtrip", "{body:?} decoded back as {back:?}"),
                Err(e) => vfail!("c17-begin-roundtrip", "{body:?} does not decode: {e:?}"),
            }
            Ok(Outcome::new(true))
        },
        Case::EndBytes(b) => {
            let r = EndRequest::from_bytes(*b);
            let st_ok = b[4] <= 3;
            let ps = ProtocolStatus::try_from(b[4]);
            vensure!(ps.is_ok() == st_ok, "c17-status", "ProtocolStatus::try_from({}).is_ok() = {}", b[4], ps.is_ok());
            match r {
                Ok(body) => {
                    vensure!(st_ok, "c17-end-accepts", "EndRequest::from_bytes accepted status {}", b[4]);
                    vensure!(body.app_status == u32::from_be_bytes([b[0], b[1], b[2], b[3]]) && u8::from(body.protocol_status) == b[4], "c17-end-fields", "{b:02x?} decoded as {body:?}");
                    let exp = [b[0], b[1], b[2], b[3], b[4], 0, 0, 0];
                    vensure!(body.to_bytes() == exp, "c17-end-reencode", "re-encoding of {b:02x?} gave {:02x?}", body.to_bytes());
                },
                Err(PErr::UnknownStatus(s)) => vensure!(!st_ok && s == b[4], "c17-end-rejects", "UnknownStatus({s}) for {b:02x?}"),
                Err(e) => vfail!("c17-end-rejects", "unexpected error {e:?}"),
            }
            Ok(Outcome::new(true))
        },
        Case::EndRec { app, st, id } => {
            let ps = ProtocolStatus::try_from(*st).map_err(|_| Fail::new("c17-status", "valid status rejected"))?;
            let body = EndRequest { app_status: *app, protocol_status: ps };
            let rec = body.to_record(*id);
            let a = app.to_be_bytes();
            let exp = [1, 3, (*id >> 8) as u8, *id as u8, 0, 8, 0, 0, a[0], a[1], a[2], a[3], *st, 0, 0, 0];
            vensure!(rec == exp, "c17-end-record", "EndRequest{{{app},{st}}}.to_record({id}) = {rec:02x?}");
            match EndRequest::from_bytes(body.to_bytes()) {
                Ok(back) => vensure!(back == body, "c17-end-roundtrip", "{body:?} decoded back as {back:?}"),
                Err(e) => vfail!("c17-end-roundtrip", "{body:?} does not decode: {e:?}"),
            }
            Ok(Outcome::new(true))
        },
        Case::Unknown { ty, id, junk } => {
            let u = UnknownType { rtype: *ty };
            vensure!(u.to_bytes() == [*ty, 0, 0, 0, 0, 0, 0, 0], "c17-unknown-body", "UnknownType({ty}).to_bytes() = {:02x?}", u.to_bytes());
            let back = UnknownType::from_bytes([*ty, *junk, *junk, 0, *junk, 0, 0, *junk]);
            vensure!(back == u, "c17-unknown-body", "UnknownType::from_bytes ignores reserved bytes? got {back:?}");
            let rec = u.to_record(*id);
            let exp = [1, 11, (*id >> 8) as u8, *id as u8, 0, 8, 0, 0, *ty, 0, 0, 0, 0, 0, 0, 0];
            vensure!(rec == exp, "c17-unknown-record", "UnknownType({ty}).to_record({id}) = {rec:02x?}");
            // versions
            let v = Version::try_from(*ty);
            vensure!(v.is_ok() == (*ty == 1), "c17-version", "Version::try_from({ty}).is_ok() = {}", v.is_ok());
            if let Err(e) = v {
                vensure!(matches!(e, PErr::UnknownVersion(x) if x == *ty), "c17-version", "Version::try_from({ty}) error {e:?}");
            }
            let rt = RecordType::try_from(*ty);
            vensure!(rt.is_ok() == (1..=11).contains(ty), "c17-rtype", "RecordType::try_from({ty}).is_ok() = {}", rt.is_ok());
            if let Err(e) = rt {
                vensure!(matches!(e, PErr::UnknownRecordType(x) if x == *ty), "c17-rtype", "RecordType::try_from({ty}) error {e:?}");
            }
            Ok(Outcome::new(true))
        },
        Case::Exit { variant, code } => {
            let (status, proto, app) = match variant {
                0 => (ExitStatus::Complete(*code), wire::ST_COMPLETE, *code),
                1 => (ExitStatus::Overloaded, wire::ST_OVERLOADED, 0),
                2 => (ExitStatus::UnknownRole, wire::ST_UNKNOWN_ROLE, 0),
                3 => (ExitStatus::SUCCESS, wire::ST_COMPLETE, 0),
                // the constant is a `Complete(code)`: it maps like any completed request (which
                // code it carries is the crate's choice; C11 only calls it "distinguished")
                4 => match ExitStatus::ABORT {
                    ExitStatus::Complete(c) => (ExitStatus::ABORT, wire::ST_COMPLETE, c),
                    _ => (ExitStatus::ABORT, wire::ST_COMPLETE, wire::ABRT),
                },
                5 => (ExitStatus::default(), wire::ST_COMPLETE, 0),
                _ => (ExitStatus::from(*code), wire::ST_COMPLETE, *code),
            };
            let e = EndRequest::from(status);
            vensure!(u8::from(e.protocol_status) == proto && e.app_status == app, "c17-exit-status", "{status:?} maps to protocol status {} app status {:#x}, documented ({proto}, {app:#x})", u8::from(e.protocol_status), e.app_status);
            Ok(Outcome::new(true))
        },
        Case::Vars { subset, conns, prefill, target } => test_vars(*subset, *conns as usize, *prefill as usize, *target),
        Case::VarsSeq(calls) => {
            for (conns, subset, target) in calls {
                test_vars(*subset & 7, (*conns).max(1) as usize, 0, *target)?;
            }
            Ok(Outcome::new(calls.len() >= 2))
        },
        Case::Name(s) => {
            let r = ProtocolVariables::parse_name(s.as_bytes());
            let exp = match s.as_str() {
                "FCGI_MAX_CONNS" => Some(ProtocolVariables::FCGI_MAX_CONNS),
                "FCGI_MAX_REQS" => Some(ProtocolVariables::FCGI_MAX_REQS),
                "FCGI_MPXS_CONNS" => Some(ProtocolVariables::FCGI_MPXS_CONNS),
                _ => None,
            };
            match (r, exp) {
                (Ok(v), Some(e)) => vensure!(v == e, "c17-parse-name", "parse_name({s:?}) = {v:?}"),
                (Err(PErr::UnknownVariable), None) => {},
                (r, e) => vfail!("c17-parse-name", "parse_name({s:?}) = {r:?}, expected {e:?}"),
            }
            Ok(Outcome::new(true))
        },
    }
}

const VAR_NAMES: [(&str, u8); 3] = [("FCGI_MAX_CONNS", 1), ("FCGI_MAX_REQS", 2), ("FCGI_MPXS_CONNS", 4)];

fn check_response(appended: &[u8], subset: u8, conns: usize) -> Result<(), Fail> {
    vensure!(appended.len() <= ProtocolVariables::RESPONSE_LEN, "c17-response-len", "response of {} bytes exceeds RESPONSE_LEN {}", appended.len(), ProtocolVariables::RESPONSE_LEN);
    let (recs, used) = wire::decode_log(appended).map_err(|e| Fail::new("c17-response-malformed", e))?;
    vensure!(recs.len() == 1 && used == appended.len(), "c17-response-malformed", "response is not exactly one complete record ({} records, {} of {} bytes)", recs.len(), used, appended.len());
    let r = &recs[0];
    vensure!(r.ty == wire::T_GETVALUES_RESULT && r.id == 0, "c17-response-header", "response record has type {} id {}", r.ty, r.id);
    vensure!(r.pad.len() < 8 && (r.payload.len() + r.pad.len()) % 8 == 0, "c17-padding-rule", "response content {} padding {}", r.payload.len(), r.pad.len());
    let reply = wire::classify_out(r).map_err(|e| Fail::new("c17-response-malformed", e))?;
    let mut exp: Vec<(Vec<u8>, Vec<u8>)> = VAR_NAMES
        .iter()
        .filter(|(_, bit)| subset & bit != 0)
        .map(|(n, bit)| (n.as_bytes().to_vec(), if *bit == 4 { b"0".to_vec() } else { conns.to_string().into_bytes() }))
        .collect();
    exp.sort();
    vensure!(reply == wire::Reply::Values { pairs: exp.clone() }, "c17-response-content", "subset {subset:#05b} conns {conns}: response lists {reply:?}");
    Ok(())
}

fn test_vars(subset: u8, conns: usize, prefill: usize, target: u8) -> TestResult {
    let vars = ProtocolVariables::from_bits(subset).ok_or_else(|| Fail::new("c17-vars", "subset not representable"))?;
    let mut cfg = Config::with_conns(NonZeroUsize::new(conns).expect("conns >= 1"));
    cfg.buffer_size = 64;
    let fill: Vec<u8> = (0..prefill).map(|i| (i * 7 + 3) as u8).collect();
    macro_rules! run {
        ($v:expr) => {{
            let mut out = $v;
            out.extend_from_slice(&fill);
            let n = vars.write_response(&mut out, &cfg);
            vensure!(out.len() == prefill + n, "c17-response-count", "write_response returned {n} but appended {}", out.len() - prefill);
            vensure!(out[..prefill] == fill[..], "c17-response-prefix", "existing buffer contents were modified");
            check_response(&out[prefill..], subset, conns)?;
        }};
    }
    match target {
        0 => run!(Vec::<u8>::new()),
        1 => run!(SmallVec::<[u8; 104]>::new()),
        2 => run!(SmallVec::<[u8; 16]>::new()),
        3 => run!(SmallVec::<[u8; 0]>::new()),
        _ => run!(SmallVec::<[u8; 256]>::new()),
    }
    Ok(Outcome::new(subset != 0).label_if(conns.to_string().len() >= 19, "max-digits"))
}

fn conn_limits() -> Vec<u64> {
    let mut v = vec![1u64, 2, 5, 9];
    let mut p: u128 = 10;
    while p <= u64::MAX as u128 {
        for d in [p - 1, p, p + 1] {
            if d >= 1 && d <= u64::MAX as u128 {
                v.push(d as u64);
            }
        }
        p *= 10;
    }
    v.extend([u64::MAX, u64::MAX - 1, 183, 1 << 31, (1 << 32) - 1, 1 << 32]);
    v.sort();
    v.dedup();
    v
}

// ---------------------------------------------------------------------------------------------
// end-of-request sequence observed on the transport through Request::close

#[derive(Clone, Debug, Serialize, Deserialize)]
struct CloseCase {
    role: u16,
    id: u16,
    /// 0 Complete(code), 1 Overloaded, 2 UnknownRole
    variant: u8,
    code: u32,
    keep: bool,
    /// bytes accepted per write call
    accept: u16,
    vectored: bool,
    /// an unknown-type record precedes the stream terminators, so that (for the Filter role) a
    /// management reply is still pending in the parser when `close` writes the epilogue
    #[serde(default)]
    query: bool,
}

fn test_close(c: &CloseCase) -> TestResult {
    use crate::aio::*;
    use std::future::Future;
    use std::sync::{Arc, Mutex};
    let cfg = crate::syncdrv::config(256, 1);
    let sp = crate::props::c10::stream_parser_for(&cfg, c.id, c.role, c.keep as u8)?;
    // a compliant client ends every input stream of the role
    let mut in_recs: Vec<wire::Rec> = Vec::new();
    if c.query {
        in_recs.push(wire::Rec::new(0xc8, 0, vec![1, 2, 3], 5));
    }
    in_recs.extend(wire::role_streams(c.role).iter().map(|&s| wire::Rec::new(s, c.id, vec![], 0)));
    let input: Vec<u8> = wire::encode_all(&in_recs);
    let world = Arc::new(Mutex::new(World::new(input.clone(), vec![(input.len(), Cond::Now)], vec![], vec![WStep::Accept(c.accept.max(1))], c.vectored, IoFault::None)));
    world.lock().unwrap().close_at_end = false;
    let req = fastcgi_server::async_io::Request::new(sp, MockReader(world.clone()), MockWriter(world.clone()));
    let (status, proto, app) = match c.variant % 3 {
        0 => (ExitStatus::Complete(c.code), wire::ST_COMPLETE, c.code),
        1 => (ExitStatus::Overloaded, wire::ST_OVERLOADED, 0),
        _ => (ExitStatus::UnknownRole, wire::ST_UNKNOWN_ROLE, 0),
    };
    let mut fut = Box::pin(req.close(status));
    let flag = FlagWaker::new(true);
    let waker = std::task::Waker::from(flag.clone());
    let mut cx = std::task::Context::from_waker(&waker);
    let mut polls = 0;
    let res = loop {
        polls += 1;
        vensure!(polls < 10_000, "conn-spin", "close() did not finish");
        vensure!(flag.take(), "conn-hang", "close() is pending without a wake-up");
        if let std::task::Poll::Ready(r) = fut.as_mut().poll(&mut cx) {
            break r;
        }
    };
    match (&res, c.keep) {
        (Ok(_), true) => {},
        (Err(e), false) if e.kind() == std::io::ErrorKind::ConnectionReset => {},
        (r, k) => vfail!("c17-close-result", "close() with KeepConn={k} returned {:?}", r.as_ref().map(|_| "Ok").map_err(|e| e.kind())),
    }
    drop(res);
    drop(fut);
    let w = world.lock().unwrap();
    let (recs, used) = wire::decode_log(&w.log).map_err(|e| Fail::new("c17-epilogue", e))?;
    vensure!(used == w.log.len(), "c17-epilogue", "end-of-request sequence ends with an incomplete record");
    let mut replies: Vec<wire::Reply> = recs.iter().map(wire::classify_out).collect::<Result<_, _>>().map_err(|e| Fail::new("c17-epilogue", e))?;
    // a pending management reply (Filter role only: `close` has to read up to the final stream)
    // goes out before the epilogue, intact
    // is intact and next to the epilogue, not inside it (C07, not C17, says it goes first)
    if c.query && c.role == wire::ROLE_FILTER {
        let want = wire::Reply::Unknown { id: 0, ty: 0xc8 };
        if replies.first() == Some(&want) {
            replies.remove(0);
        } else if replies.len() == 4 && replies.last() == Some(&want) {
            replies.pop();
        } else {
            vfail!("c17-epilogue", "expected the pending UnknownType reply next to the end-of-request sequence, log is {replies:?}");
        }
    }
    vensure!(replies.len() == 3, "c17-epilogue", "end-of-request sequence for role {} has {} records: {replies:?}", c.role, replies.len());
    let mut ends: Vec<u8> = Vec::new();
    for r in &replies[..2] {
        match r {
            wire::Reply::Stream { ty, id, payload } if payload.is_empty() && *id == c.id => ends.push(*ty),
            other => vfail!("c17-epilogue", "expected an empty output-stream record with id {}, found {other:?}", c.id),
        }
    }
    ends.sort_unstable();
    // "one empty record per output stream": the statement does not order the two
    vensure!(ends == vec![wire::T_STDOUT, wire::T_STDERR], "c17-epilogue", "the two stream-end records have types {ends:?}");
    vensure!(replies[2] == wire::Reply::End { id: c.id, proto, app }, "c17-epilogue", "final record {:?}, expected EndRequest{{id {}, protocol {proto}, app {app:#x}}}", replies[2], c.id);
    Ok(Outcome::new(true).label_if(c.keep, "keep-conn"))
}

pub fn property() -> Property {
    let close: Box<dyn Sub> = Box::new(EnumSub::<CloseCase> {
        name: "epilogue_via_close",
        rule: "Request::close on the async test bed for 3 roles x 9 request ids x {Complete(0,1,ABRT,u32::MAX), Overloaded, UnknownRole} x KeepConn on/off x transports accepting 1 / 7 / all bytes per call, vectored or not: the byte log is exactly one empty Stdout and one empty Stderr record (either order) followed by the EndRequest with the documented status, all carrying the request's id; distinct by construction",
        exhaustive: Box::new(|_| true),
        guard_each: true,
        test: Box::new(test_close),
        body: Box::new(|_t, shard, n, sink| {
            let mut k = 0usize;
            for role in 1..=3u16 {
                for id in [1u16, 2, 0x00ff, 0x0100, 0x0101, 0x7fff, 0x8000, 0xfffe, 0xffff] {
                    for (variant, code) in [(0u8, 0u32), (0, 1), (0, wire::ABRT), (0, u32::MAX), (1, 0), (2, 0)] {
                        for keep in [false, true] {
                            for accept in [1u16, 7, 10, 20, u16::MAX] {
                                for vectored in [false, true] {
                                    for query in [false, true] {
                                        k += 1;
                                        if k % n == shard && !sink.check(CloseCase { role, id, variant, code, keep, accept, vectored, query }) {
                                            return;
                                        }
                                    }
                                }
                            }
                        }
                    }
                }
            }
        }),
    });
    let tables: Box<dyn Sub> = Box::new(EnumSub::<Case> {
        name: "tables",
        rule: "enumerations, distinct by construction: all 2^16 (version,type) byte pairs x 6 settings of the other header bytes; every request id / content length / padding / reserved byte value with the rest sampled; all 11 types x 2^16 ids as header values; all 65536 content lengths for set_lengths; all 256 padding_bytes; all 2^16 roles x 256 flag bytes (BeginRequest bodies, reserved bytes non-zero); all 256 protocol-status bytes x 40 application statuses; whole-record encoders; all 256 UnknownType/Version/RecordType bytes; every ExitStatus variant x sampled codes; parse_name on known and near-miss names",
        exhaustive: Box::new(|_| true),
        guard_each: true,
        test: Box::new(test_case),
        body: Box::new(|tier, shard, n, sink| {
            let mine = |i: u64| (i % n as u64) as usize == shard;
            let mut k: u64 = 0;
            macro_rules! emit {
                ($c:expr) => {{
                    k += 1;
                    if mine(k) && !sink.check($c) {
                        return;
                    }
                }};
            }
            // (version, type) exhaustively with several settings of the remaining bytes
            let others: [[u8; 6]; 6] = [
                [0, 0, 0, 0, 0, 0], [0xff, 0xff, 0xff, 0xff, 0xff, 0xff], [0, 1, 0, 8, 0, 0],
                [0x12, 0x34, 0x56, 0x78, 0x9a, 0xbc], [0, 0, 0xff, 0xff, 7, 1], [0x80, 0, 0x80, 0, 0x80, 0x80],
            ];
            for v in 0..=255u8 {
                for t in 0..=255u8 {
                    for o in &others {
                        emit!(Case::HeaderBytes([v, t, o[0], o[1], o[2], o[3], o[4], o[5]]));
                    }
                }
            }
            // each other field exhaustively
            for t in 1..=11u8 {
                for x in 0..=u16::MAX {
                    let [hi, lo] = x.to_be_bytes();
                    emit!(Case::HeaderBytes([1, t, hi, lo, lo, hi, lo ^ 0x5a, 0]));
                    emit!(Case::HeaderVal { ty: t, id: x, len: x.rotate_left(5) ^ 0x1234, pad: (x >> 3) as u8 });
                    if true {
                        emit!(Case::HeaderBytes([1, t, 0, 1, hi, lo, 0, 0]));
                        emit!(Case::HeaderVal { ty: t, id: x.wrapping_mul(31), len: x, pad: lo });
                    }
                }
                for p in 0..=255u8 {
                    emit!(Case::HeaderBytes([1, t, 0, 1, 0, 8, p, 0]));
                    emit!(Case::HeaderBytes([1, t, 0, 1, 0, 8, 0, p]));
                    emit!(Case::HeaderVal { ty: t, id: 1, len: 8, pad: p });
                }
            }
            for len in 0..=u16::MAX {
                emit!(Case::SetLengths(len));
            }
            for p in 0..=255u8 {
                emit!(Case::PaddingBytes(p));
            }
            // BeginRequest: all roles x all flag bytes
            for role in 0..=u16::MAX {
                let flag_step = 1;
                let mut f = 0u16;
                while f <= 255 {
                    let [hi, lo] = role.to_be_bytes();
                    emit!(Case::BeginBytes([hi, lo, f as u8, 0xde, 0xad, 0xbe, 0xef, 0x01]));
                    f += flag_step;
                }
            }
            for role in 1..=3u16 {
                for flags in 0..=255u8 {
                    for id in [0u16, 1, 2, 0x00ff, 0x0100, 0x7fff, 0x8000, 0xffff] {
                        emit!(Case::BeginRec { role, flags, id });
                    }
                }
            }
            // EndRequest
            let apps: Vec<u32> = (0..40u32).map(|i| match i {
                0 => 0, 1 => 1, 2 => u32::MAX, 3 => wire::ABRT, 4 => 0x8000_0000, 5 => 0x0100_0000, 6 => 0x0001_0000, 7 => 0x0000_0100,
                _ => i.wrapping_mul(0x9e37_79b9),
            }).collect();
            for st in 0..=255u8 {
                for &a in &apps {
                    let ab = a.to_be_bytes();
                    emit!(Case::EndBytes([ab[0], ab[1], ab[2], ab[3], st, 0x11, 0x22, 0x33]));
                }
            }
            for st in 0..=3u8 {
                for &a in &apps {
                    for id in [0u16, 1, 0x00ff, 0x0100, 0xffff, 0xa55a] {
                        emit!(Case::EndRec { app: a, st, id });
                    }
                }
            }
            for ty in 0..=255u8 {
                for id in [0u16, 1, 0x00ff, 0x0100, 0xffff] {
                    emit!(Case::Unknown { ty, id, junk: ty.wrapping_mul(37) | 1 });
                }
            }
            for variant in 0..=6u8 {
                for &a in &apps {
                    emit!(Case::Exit { variant, code: a });
                }
            }
            for s in ["FCGI_MAX_CONNS", "FCGI_MAX_REQS", "FCGI_MPXS_CONNS", "", "FCGI_MAX_CONN", "FCGI_MAX_CONNSS", "FCGI_MAX_REQ", "FCGI_MPXS_CONN", "FCGI_", "X", "FCGI_MAX_CONNS\0", " FCGI_MAX_REQS", "FCGI_MAX_REQS ", "FCGI-MAX-REQS", "FCGI_MAX_CONNS|FCGI_MAX_REQS", "fcgi_max_conns_x", "\u{e4}", "0x7", "0x1", "0x0", "7", "1", "0b1", "FCGI_MAX_CONNS | FCGI_MPXS_CONNS", "\tFCGI_MPXS_CONNS", "FCGI_MAX_CONNS\n", "FCGI_MAX_CONNS,FCGI_MAX_REQS", "fcgi_max_conns", "Fcgi_Max_Reqs", "|", " "] {
                emit!(Case::Name(s.to_string()));
            }
        }),
    });

    let vars: Box<dyn Sub> = Box::new(EnumSub::<Case> {
        name: "get_values_result",
        rule: "all 8 variable subsets x connection limits at every decimal-length boundary (10^k-1, 10^k, 10^k+1 for k=1..19, usize::MAX, ...) x pre-filled lengths {0,1,7,8,9,103,104,105,300} x 5 targets (Vec, SmallVec inline 0/16/104/256): one well-formed GetValuesResult record, <= RESPONSE_LEN, appended, exactly the requested names with the configured limit / \"0\"; non-trivial = non-empty subset",
        exhaustive: Box::new(|_| true),
        guard_each: true,
        test: Box::new(test_case),
        body: Box::new(|_tier, shard, n, sink| {
            let mut k = 0u64;
            for subset in 0..8u8 {
                for &conns in &conn_limits() {
                    for prefill in [0u16, 1, 7, 8, 9, 103, 104, 105, 300] {
                        for target in 0..5u8 {
                            k += 1;
                            if (k % n as u64) as usize == shard && !sink.check(Case::Vars { subset, conns, prefill, target }) {
                                return;
                            }
                        }
                    }
                }
            }
        }),
    });

    let seqs: Box<dyn Sub> = Box::new(EnumSub::<Case> {
        name: "get_values_result_sequences",
        rule: "replies generated back to back on one thread for configurations whose limits differ but agree in the low 8 / 16 / 32 bits, in the high bits, in the number of decimal digits or in all but one digit (every ordered pair from 14 such families, each followed by the first again), with every non-empty variable subset: each reply carries its own configuration's limit (nothing remembered from an earlier call); distinct by construction",
        exhaustive: Box::new(|_| true),
        guard_each: true,
        test: Box::new(test_case),
        body: Box::new(|_tier, shard, n, sink| {
            let mut families: Vec<Vec<u64>> = Vec::new();
            for x in [1u64, 9, 10, 183, 255, 256, 65535, 65536, 99_999, 4_294_967_295] {
                families.push(vec![x, x + (1 << 8), x + (1 << 16), x + (1 << 32), x + (7 << 32), x + (1 << 63), x + (1 << 33) + (1 << 16)]);
            }
            families.push(vec![1234567, 1234568, 1234577, 2234567, 1234567890, 1234567891, 7654321]);
            families.push(vec![u64::MAX, u64::MAX - (1 << 32), u64::MAX >> 32, u64::MAX >> 1, (u64::MAX >> 32) << 32 | 183]);
            families.push(vec![100, 1000, 10000, 100000, 1 << 32, 1 << 31, (1 << 32) + 100]);
            families.push(vec![42, 42 + (1 << 32), 42 + (2 << 32), 42 + (1 << 40), 43, 43 + (1 << 32)]);
            let mut k = 0usize;
            for f in &families {
                for &a in f {
                    for &b in f {
                        if a == b {
                            continue;
                        }
                        for subset in 1..8u8 {
                            k += 1;
                            if k % n == shard && !sink.check(Case::VarsSeq(vec![(a, subset, (k % 5) as u8), (b, subset, (k % 5) as u8), (a, subset | 1, 0), (b, 7, 0)])) {
                                return;
                            }
                        }
                    }
                }
            }
        }),
    });

    Property {
        id: "C17",
        level: "exploration",
        assumptions: vec![
            "oracle = the FastCGI specification's record layouts re-implemented independently in harness/src/wire.rs and in the expected-byte arrays of this module",
            "the end-of-request sequence is observed on the transport byte log through Request::close (sub-check epilogue_via_close)",
        ],
        subs: vec![tables, vars, seqs, close],
    }
}
