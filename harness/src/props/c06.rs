//! C06 — documented buffer bound suffices; lack of space is reported, never waited on.

use proptest::prelude::*;
use serde::{Deserialize, Serialize};

use fastcgi_server::parser::{request, stream};

use crate::engine::*;
use crate::gen::{self, Blob, Chunking};
use crate::model::{self, PreResult};
use crate::syncdrv::{self, check_request, err_kind, run_request, ErrKind};
use crate::traffic::{self, CutMode, Noise, PairSpec, ParamsSpec, Phase, PreambleSpec};
use crate::wire;
use crate::{vensure, vfail};

// ---------------------------------------------------------------------------------------------
// (a) sizing

fn test_sizing(b: &u64) -> TestResult {
    let b = *b as usize;
    let cfg = syncdrv::config(b, 1);
    let mut rp = request::Parser::new(&cfg);
    let eff = rp.input_buffer().len();
    vensure!(eff >= b, "c06-smaller-than-configured", "buffer_size {b}: request parser offers {eff} bytes");
    vensure!(eff >= 24, "c06-below-minimum", "buffer_size {b}: request parser offers {eff} bytes, protocol minimum is 24");
    vensure!(eff % 8 == 0, "c06-not-multiple-of-8", "buffer_size {b}: effective size {eff} is not a multiple of 8");
    // (which multiple of 8 is chosen is not part of the statement: any size >= max(24, b) is fine)
    // the stream parser obeys the same three rules
    let pre = wire::encode_all(&[wire::Rec::new(wire::T_BEGIN, 1, wire::begin_body(1, 0), 0), wire::Rec::new(wire::T_PARAMS, 1, vec![], 0)]);
    rp.input_buffer()[..pre.len()].copy_from_slice(&pre);
    let y = rp.parse(pre.len());
    vensure!(y.done, "c01-not-done", "minimal preamble not parsed with buffer_size {b}");
    let (req, _) = rp.into_request().map_err(|e| Fail::new("c01-error", format!("{e:?}")))?;
    let mut sp = stream::Parser::new(&cfg, req);
    let eff2 = sp.input_buffer().len();
    vensure!(eff2 >= b, "c06-smaller-than-configured", "buffer_size {b}: stream parser offers {eff2} bytes");
    vensure!(eff2 >= 24, "c06-below-minimum", "buffer_size {b}: stream parser offers {eff2} bytes, protocol minimum is 24");
    vensure!(eff2 % 8 == 0, "c06-not-multiple-of-8", "buffer_size {b}: effective stream-parser size {eff2} is not a multiple of 8");
    Ok(Outcome::new(true).label_if(b % 8 != 0, "unaligned").label_if(b < 24, "below-minimum"))
}

// ---------------------------------------------------------------------------------------------
// (b) sufficiency at the documented bound

#[derive(Clone, Debug, Serialize, Deserialize)]
pub struct SuffCase {
    /// configured buffer_size
    pub b: u32,
    /// critical pair: name + value = b - 13 - delta
    pub delta: u8,
    /// fraction of the critical pair's size given to the name
    pub name_share: u16,
    pub long_n: bool,
    pub long_v: bool,
    pub before: Vec<PairSpec>,
    pub after: Vec<PairSpec>,
    pub cut: CutMode,
    pub pads: Vec<u8>,
    pub noise: Vec<(u16, Noise)>,
    pub id: u16,
    pub role: u16,
    pub chunkings: Vec<Chunking>,
    pub seed: u32,
}

fn build_suff(c: &SuffCase, crit_total: usize) -> (Vec<wire::Rec>, Vec<u8>, usize) {
    let nlen = gen::idx(c.name_share, crit_total + 1);
    let vlen = crit_total - nlen;
    // ASCII name so that the lossy conversion is the identity
    let name: Vec<u8> = (0..nlen).map(|i| b'a' + ((i as u32).wrapping_mul(7).wrapping_add(c.seed) % 26) as u8).collect();
    let crit = PairSpec { name: Blob::lit(&name), value: Blob::Gen { len: vlen as u32, seed: c.seed }, long_n: c.long_n, long_v: c.long_v };
    let mut pairs = c.before.clone();
    pairs.push(crit);
    pairs.extend(c.after.iter().cloned());
    let pre = PreambleSpec { id: c.id, role: c.role, flags: 1, begin_pad: 0, params: ParamsSpec { pairs, cut: c.cut.clone(), pads: c.pads.clone() } };
    let (recs, _) = pre.build();
    let last_gap = recs.len() - 1;
    let recs = traffic::splice_noise_bounded(recs, &c.noise, c.id, last_gap, |g| if g == 0 { Phase::Idle } else { Phase::Params });
    let w = wire::encode_all(&recs);
    (recs, w, nlen)
}

fn test_suff(c: &SuffCase) -> TestResult {
    let b = c.b as usize;
    let Some(crit_total) = b.checked_sub(13 + c.delta as usize) else {
        return Ok(Outcome::new(false).label("bound-below-zero"));
    };
    // all other pairs (and GetValues pairs) must obey the bound too
    let max_other = c.before.iter().chain(&c.after).map(PairSpec::body_len).max().unwrap_or(0).max(c.noise.iter().map(|(_, n)| n.longest_pair()).max().unwrap_or(0));
    if max_other + 13 > b {
        return Ok(Outcome::new(false).label("other-pair-over-bound"));
    }
    let (recs, w, _) = build_suff(c, crit_total);
    let m = model::preamble_model(&recs, 3);
    let PreResult::Done { req: mreq, .. } = &m.result else {
        vfail!("harness-inconsistent", "model: {:?}", m.result);
    };
    let cfg = syncdrv::config(b, 3);
    let mut calls = 0;
    for ch in &c.chunkings {
        let ctx = format!("[buffer_size {b}, critical pair {crit_total} bytes, chunking {ch:?}]");
        let run = run_request(request::Parser::new(&cfg), &w, 0, ch).map_err(|f| Fail::new(f.sig, format!("{ctx} {}", f.msg)))?;
        calls = calls.max(run.feeding_calls);
        vensure!(run.done, "c01-not-done", "{ctx} not done after the complete preamble");
        match run.parser.into_request() {
            Ok((req, left)) => {
                check_request(&req, mreq).map_err(|f| Fail::new(f.sig, format!("{ctx} {}", f.msg)))?;
                vensure!(left.is_empty(), "c01-leftover", "{ctx} {} leftover bytes", left.len());
            },
            Err(e) if err_kind(&e) == ErrKind::StuckOnInput => {
                vfail!("c06-stuck-within-bound", "{ctx} StuckOnInput although every pair satisfies name+value <= buffer_size - 13");
            },
            Err(e) => vfail!("c01-error", "{ctx} well-formed preamble rejected: {e:?}"),
        }
        let replies = wire::decode_replies(&run.output).map_err(|e| Fail::new("c04-output-malformed", format!("{ctx} {e}")))?;
        model::match_replies(&m.replies, &replies).map_err(|e| Fail::new("c04-replies", format!("{ctx} {e}")))?;
    }
    Ok(Outcome::new(c.delta <= 2 && calls >= 2)
        .label_if(c.delta == 0, "exactly-at-bound")
        .label_if(c.long_n || c.long_v, "forced-4-byte-length")
        .label_if(b < 24, "configured-below-minimum")
        .label_if(b % 8 != 0, "unaligned-size")
        .label_if(matches!(c.cut, CutMode::Aimed(_)), "aimed-cuts"))
}

// ---------------------------------------------------------------------------------------------
// (c) converse: StuckOnInput only for lack of space, and then immediately; (d) tight limit info

#[derive(Clone, Debug, Serialize, Deserialize)]
pub struct OverCase {
    pub b: u32,
    /// name+value relative to the effective buffer length: eff - 8 + over (over may be negative)
    pub over: i16,
    pub name_share: u16,
    pub before: Vec<PairSpec>,
    pub cut: CutMode,
    pub pads: Vec<u8>,
    pub ch: Chunking,
    pub seed: u32,
    /// a GetValues record (gap selector, size relative to the tight limit) carrying an unknown
    /// name-value pair of about buffer size, placed before or between the Params records
    #[serde(default)]
    pub gv_over: Option<(u16, i16)>,
}

fn test_over(c: &OverCase) -> TestResult {
    let b = c.b as usize;
    // sizes are chosen relative to what the parser really allocates
    let eff = request::Parser::new(&syncdrv::config(b, 1)).input_buffer().len();
    let total = (eff as i64 - 8 + c.over as i64).max(0) as usize;
    let max_other = c.before.iter().map(PairSpec::body_len).max().unwrap_or(0);
    if max_other + 13 > b {
        return Ok(Outcome::new(false).label("other-pair-over-bound"));
    }
    let mut noise = Vec::new();
    let mut gv_total = 0usize;
    if let Some((gap, over)) = c.gv_over {
        gv_total = (eff as i64 - 8 + over as i64).clamp(1, 65_000) as usize;
        let nlen = 1 + (c.seed as usize % 20).min(gv_total - 1);
        noise.push((gap, Noise::GetValues {
            items: vec![traffic::GvItem::Other(Blob::Gen { len: nlen as u32, seed: c.seed ^ 5 }, Blob::Gen { len: (gv_total - nlen) as u32, seed: c.seed ^ 9 })],
            trunc: 0,
            pad: (c.seed % 9) as u8,
            long: false,
        }));
    }
    let sc = SuffCase {
        b: c.b, delta: 0, name_share: c.name_share, long_n: false, long_v: false, before: c.before.clone(), after: vec![],
        cut: c.cut.clone(), pads: c.pads.clone(), noise, id: 9, role: 1, chunkings: vec![], seed: c.seed,
    };
    let (recs, w, _) = build_suff(&sc, total);
    let m = model::preamble_model(&recs, 1);
    let PreResult::Done { req: mreq, .. } = &m.result else { vfail!("harness-inconsistent", "model: {:?}", m.result) };
    let cfg = syncdrv::config(b, 1);
    // run_request itself enforces: not done => non-empty input buffer
    let run = run_request(request::Parser::new(&cfg), &w, 0, &c.ch)?;
    let mut p = run.parser;
    let mut label = "within-tight-limit-ok";
    if run.done {
        match p.into_request() {
            Ok((req, _)) => check_request(&req, mreq)?,
            Err(e) if err_kind(&e) == ErrKind::StuckOnInput => {
                vensure!(total + 13 > b || gv_total + 13 > b, "c06-stuck-within-bound", "StuckOnInput for pairs of {total} (Params) / {gv_total} (GetValues) bytes with buffer_size {b}");
                label = "stuck-reported";
            },
            Err(e) => vfail!("c01-error", "unexpected error {e:?}"),
        }
    } else {
        vfail!("c01-not-done", "neither finished nor stuck after the complete preamble (buffer_size {b}, pair {total} bytes)");
    }
    // (d) informational: behaviour between the documented bound and the tight limit
    let info = if total + 13 > b && total + 8 <= eff { if label == "stuck-reported" { "info:between-bounds-stuck" } else { "info:between-bounds-ok" } } else { "info:n/a" };
    Ok(Outcome::new(total + 8 > eff || label == "stuck-reported").label(label).label(info))
}

fn buf_sizes() -> BoxedStrategy<u32> {
    prop_oneof![
        4 => 13u32..=80,
        2 => 80u32..=600,
        1 => prop_oneof![Just(1000u32), Just(4096), Just(8191), Just(8192), Just(8193)],
        1 => 600u32..=70000,
    ]
    .boxed()
}

fn suff_strategy() -> BoxedStrategy<SuffCase> {
    buf_sizes()
        .prop_flat_map(|b| {
            let small = b.saturating_sub(13).min(60);
            (
                Just(b),
                prop_oneof![3 => Just(0u8), 2 => Just(1u8), 1 => Just(2u8), 1 => Just(5u8)],
                prop_oneof![1 => Just(0u16), 1 => Just(0xffffu16), 3 => any::<u16>()],
                prop::bool::weighted(0.3),
                prop::bool::weighted(0.3),
                proptest::collection::vec(traffic::bounded_pair(small), 0..4),
                proptest::collection::vec(traffic::bounded_pair(small), 0..3),
                prop_oneof![1 => Just(CutMode::One), 2 => proptest::collection::vec(any::<u16>(), 1..6).prop_map(CutMode::Fracs), 4 => proptest::collection::vec((any::<u16>(), -3i8..=12), 1..5).prop_map(CutMode::Aimed), 1 => (1u8..=8).prop_map(CutMode::Every)],
                traffic::pads(),
                proptest::collection::vec((any::<u16>(), traffic::noise(small)), 0..3),
                (traffic::req_id(), 1u16..=3, gen::chunking(), any::<u32>()),
            )
        })
        .prop_map(|(b, delta, name_share, long_n, long_v, before, after, cut, pads, noise, (id, role, ch, seed))| SuffCase {
            b, delta, name_share, long_n, long_v, before, after, cut, pads, noise, id, role,
            chunkings: vec![Chunking::Max, Chunking::One, ch], seed,
        })
        .boxed()
}

fn over_strategy() -> BoxedStrategy<OverCase> {
    (
        prop_oneof![3 => 0u32..=80, 2 => 80u32..=600, 1 => Just(8192u32), 1 => 600u32..=20000],
        prop_oneof![4 => -12i16..=12, 1 => 12i16..=300, 1 => Just(i16::MAX)],
        any::<u16>(),
        proptest::collection::vec(traffic::bounded_pair(0), 0..3),
        prop_oneof![1 => Just(CutMode::One), 2 => proptest::collection::vec(any::<u16>(), 1..6).prop_map(CutMode::Fracs), 2 => proptest::collection::vec((any::<u16>(), -3i8..=12), 1..5).prop_map(CutMode::Aimed)],
        traffic::pads(),
        gen::chunking(),
        any::<u32>(),
    )
        .prop_map(|(b, over, name_share, before, cut, pads, ch, seed)| {
            // derived: one case in three carries a GetValues record with a pair around the limit
            let gv_over = if seed % 3 == 0 { Some(((seed >> 8) as u16, [-20i16, -9, -8, -7, -1, 0, 1, 5, 40, 300][(seed >> 3) as usize % 10])) } else { None };
            OverCase { b, over, name_share, before, cut, pads, ch, seed, gv_over }
        })
        .boxed()
}

pub fn property() -> Property {
    let sizing: Box<dyn Sub> = Box::new(EnumSub::<u64> {
        name: "sizing",
        rule: "every buffer_size 0..=8192 plus pseudo-random sizes up to 1 MiB covering every residue mod 8 (2 000 quick / 20 000 thorough): effective length of both parsers >= max(24, size) and a multiple of 8 (which multiple is not prescribed); distinct by construction",
        exhaustive: Box::new(|_| false),
        guard_each: true,
        test: Box::new(test_sizing),
        body: Box::new(|tier, shard, n, sink| {
            for b in 0..=8192u64 {
                if b as usize % n == shard && !sink.check(b) {
                    return;
                }
            }
            let extra = tier.pick(2_000u64, 20_000u64);
            let mut x: u64 = 0x1234_5678_9abc_def1;
            for i in 0..extra {
                x ^= x << 13;
                x ^= x >> 7;
                x ^= x << 17;
                let b = 8193 + (x % ((1 << 20) - 8193)) / 8 * 8 + (i % 8);
                if (i as usize) % n == shard && !sink.check(b) {
                    return;
                }
            }
        }),
    });
    Property {
        id: "C06",
        level: "exploration",
        assumptions: vec![
            "the bound is taken from the Config::buffer_size documentation: longest name+value plus 13 bytes; GetValues pairs obey it as well",
            "pairs between the documented bound and the true tight limit (effective length - 8) are run for information only (labels info:*), never asserted",
            "sizing: 0..=8192 exhaustively, larger sizes sampled (the domain up to usize::MAX cannot be allocated)",
        ],
        subs: vec![
            sizing,
            prop_sub(
                "sufficiency",
                "buffer sizes 13..70000 (dense below 80, all residues mod 8) with a critical pair of exactly buffer_size-13-delta bytes (delta in {0,1,2,5}; name/value split anywhere; one- and four-byte length forms) at the start/middle/end of the Params stream, cuts aimed around it (inside its length prefix, across 2-3 records), ordinary pairs and GetValues/unknown noise obeying the bound; chunkings all-at-once (fills the buffer exactly), 1-byte, generated; never StuckOnInput and the result equals the model; non-trivial = delta <= 2 and >= 2 feeding calls",
                60_000,
                1_500_000,
                |_| suff_strategy(),
                test_suff,
            ),
            prop_sub(
                "sufficiency_in_chain",
                "the C05 conversion chain seen from C06: request parsers that are *not* fresh (obtained from a stream parser together with 0..buffer bytes of look-ahead, including a completely full buffer) must parse every within-bound preamble of the following request without StuckOnInput; traffic, hand-off points and oracle as in C05 `chain`; non-trivial = >=2 requests and >=1 hand-off carrying look-ahead; distinct = hash of the case",
                20_000,
                500_000,
                |_| crate::props::c05::case_strategy(),
                crate::props::c05::test,
            ),
            prop_sub(
                "converse",
                "pairs sized around the tight limit (effective length - 8 + [-12..12], some far larger): an unfinished parser always offers input space (checked after every call), StuckOnInput only appears for pairs beyond the documented bound, otherwise the result equals the model; non-trivial = pair beyond the tight limit or StuckOnInput reported",
                60_000,
                1_500_000,
                |_| over_strategy(),
                test_over,
            ),
        ],
    }
}
