//! C04 — each management or rejectable record gets exactly one correct reply, in order.

use proptest::prelude::*;
use serde::{Deserialize, Serialize};

use fastcgi_server::parser::request;

use crate::engine::*;
use crate::gen::{self, idx, Chunking};
use crate::model::{self, PreResult};
use crate::props::c02::{self, Act};
use crate::syncdrv::{self, run_request, StreamDrv, Truth};
use crate::traffic::{self, BodySpec, Noise, Phase, PreambleSpec};
use crate::wire::{self, Rec, T_ABORT, T_GETVALUES};
use crate::{vensure, vfail};

/// A preamble that the client abandons: BeginRequest, some Params records, AbortRequest.
#[derive(Clone, Debug, Serialize, Deserialize)]
pub struct Aborted {
    pub pre: PreambleSpec,
    /// how many of the Params data records are sent before the abort (fraction)
    pub keep: u16,
    pub abort_len: u16,
    pub abort_pad: u8,
    pub noise: Vec<(u16, Noise)>,
}

#[derive(Clone, Debug, Serialize, Deserialize)]
pub struct Case {
    pub idle_noise: Vec<Noise>,
    pub aborted: Vec<Aborted>,
    pub pre: PreambleSpec,
    pub pre_noise: Vec<(u16, Noise)>,
    pub body: BodySpec,
    pub buf: u32,
    pub chunkings: Vec<Chunking>,
    pub schedule: Vec<Act>,
    pub max_conns: u32,
}

pub struct Built {
    pub pre_recs: Vec<Rec>,
    pub body_recs: Vec<Rec>,
    pub wire: Vec<u8>,
    pub pre_end: usize,
    pub need: usize,
}

pub fn build(c: &Case) -> Built {
    let mut recs: Vec<Rec> = Vec::new();
    let first_id = c.aborted.first().map_or(c.pre.id, |a| a.pre.id);
    for n in &c.idle_noise {
        if let Some(r) = n.build(first_id, Phase::Idle) {
            recs.push(r);
        }
    }
    let mut need = 0;
    for a in &c.aborted {
        let (mut r, _) = a.pre.build();
        // r = [Begin, Params..., Params terminator]; keep Begin + k data records
        let data = r.len() - 2;
        let k = idx(a.keep, data + 1);
        r.truncate(1 + k);
        let last_gap = r.len();
        let mut r = traffic::splice_noise_bounded(r, &a.noise, a.pre.id, last_gap, |g| if g == 0 { Phase::Idle } else { Phase::Params });
        r.push(Rec::new(T_ABORT, a.pre.id, gen::gen_bytes(a.abort_len as usize, 3), a.abort_pad));
        recs.extend(r);
        need = need.max(a.pre.params.longest_pair()).max(a.noise.iter().map(|(_, n)| n.longest_pair()).max().unwrap_or(0));
    }
    let (r, _) = c.pre.build();
    let last_gap = r.len() - 1;
    recs.extend(traffic::splice_noise_bounded(r, &c.pre_noise, c.pre.id, last_gap, |g| if g == 0 { Phase::Idle } else { Phase::Params }));
    let body_recs = c.body.build(c.pre.id);
    let mut wire_bytes = wire::encode_all(&recs);
    let pre_end = wire_bytes.len();
    wire_bytes.extend(wire::encode_all(&body_recs));
    need = need
        .max(c.pre.params.longest_pair())
        .max(c.pre_noise.iter().map(|(_, n)| n.longest_pair()).max().unwrap_or(0))
        .max(c.idle_noise.iter().map(Noise::longest_pair).max().unwrap_or(0))
        .max(c.body.noise.iter().map(|(_, n)| n.longest_pair()).max().unwrap_or(0));
    Built { pre_recs: recs, body_recs, wire: wire_bytes, pre_end, need: need + 13 }
}

fn test(c: &Case) -> TestResult {
    let b = build(c);
    let pm = model::preamble_model(&b.pre_recs, c.max_conns as usize);
    let PreResult::Done { req: mreq, recs_used } = &pm.result else {
        vfail!("harness-inconsistent", "model does not see a complete preamble: {:?}", pm.result);
    };
    vensure!(*recs_used == b.pre_recs.len() && mreq.id == c.pre.id, "harness-inconsistent", "model finished on the wrong request ({} of {} records, id {})", recs_used, b.pre_recs.len(), mreq.id);
    vensure!(pm.aborted.len() == c.aborted.len(), "harness-inconsistent", "model saw {} aborts, generator made {}", pm.aborted.len(), c.aborted.len());
    let sm = model::stream_model(c.pre.id, c.pre.role, &b.body_recs, c.max_conns as usize);
    let cfg = syncdrv::config((c.buf as usize).max(b.need), c.max_conns as usize);

    // ---- request parser: replies under every chunking
    let mut last = None;
    let mut split_calls = 0;
    for ch in &c.chunkings {
        let ctx = format!("[chunking {ch:?}]");
        let run = run_request(request::Parser::new(&cfg), &b.wire, 0, ch).map_err(|f| Fail::new(f.sig, format!("{ctx} {}", f.msg)))?;
        vensure!(run.done, "c01-not-done", "{ctx} request parser not done after the whole wire");
        let replies = wire::decode_replies(&run.output).map_err(|e| Fail::new("c04-output-malformed", format!("{ctx} request parser output: {e}")))?;
        model::match_replies(&pm.replies, &replies).map_err(|e| Fail::new("c04-replies", format!("{ctx} request parser: {e}")))?;
        split_calls = split_calls.max(run.feeding_calls);
        last = Some(run);
    }
    let run = last.expect("at least one chunking");
    let fed = run.fed;
    let mut p = run.parser;
    {
        let y = p.parse(0);
        vensure!(y.done && y.output.is_empty(), "c04-extra-output", "parse(0) after done produced {} bytes", y.output.len());
    }
    let sp = match p.into_stream_parser() {
        Ok(sp) => sp,
        Err(e) => vfail!("c01-error", "well-formed preamble rejected: {e:?}"),
    };
    vensure!(sp.request.request_id.get() == c.pre.id, "req-id", "stream parser holds request {} instead of {}", sp.request.request_id.get(), c.pre.id);
    vensure!(sp.output_buffer().is_empty(), "c04-extra-output", "fresh stream parser already has {} output bytes", sp.output_buffer().len());

    // ---- stream parser: replies with output consumption interleaved
    let truth = Truth { content: &sm.content, end_header_fed_at: c02::truth_offsets(&sm, &b.body_recs, b.pre_end) };
    let mut d = StreamDrv::new(sp, &b.wire, fed);
    c02::drive_schedule(&mut d, &c.schedule, &sm.order, &truth)?;
    c02::quiesce(&mut d, &sm.order, &truth)?;
    let abort_expected = sm.abort_at.is_some();
    match (&d.error, abort_expected) {
        (None, false) => {},
        (Some(syncdrv::ErrKind::AbortRequest), true) => {},
        (e, _) => vfail!("stream-unexpected-error", "stream parser ended with {e:?}, abort expected: {abort_expected}"),
    }
    d.consume_output(usize::MAX)?;
    let replies = wire::decode_replies(&d.out_log).map_err(|e| Fail::new("c04-output-malformed", format!("stream parser output: {e}")))?;
    // every record the stream parser has taken in must have been answered; a parser that stops
    // taking input once no stream is selected leaves the rest (and its replies) to the next
    // request parser
    let consumed = c02::consumed_records(&d, &b.body_recs, b.pre_end);
    model::match_replies_upto(&sm.replies, &replies, consumed).map_err(|e| Fail::new("c04-replies", format!("stream parser: {e}")))?;

    let total = model::mandatory(&pm.replies) + model::mandatory(&sm.replies);
    let gv_bodies = b.pre_recs.iter().chain(b.body_recs.iter()).filter(|r| r.ty == T_GETVALUES && r.id == 0 && r.payload.len() >= 2).count();
    let fine = c.chunkings.iter().any(|c| matches!(c, Chunking::One) || matches!(c, Chunking::Cycle(v) if v.iter().all(|&x| x < 12)));
    Ok(Outcome::new(total >= 3 || (gv_bodies >= 1 && fine))
        .label_if(gv_bodies >= 1 && fine, "getvalues-body-split")
        .label_if(!c.aborted.is_empty(), "params-abort")
        .label_if(total >= 3, ">=3-replies")
        .label_if(total == 0, "no-replies")
        .label_if(b.pre_recs.iter().chain(b.body_recs.iter()).any(|r| !(1..=11).contains(&r.ty)), "unknown-type")
        .label_if(b.pre_recs.iter().chain(b.body_recs.iter()).any(|r| r.ty == wire::T_BEGIN && r.id != c.pre.id), "foreign-begin")
        .label_if(d.out_log.len() > 0 && c.schedule.iter().any(|a| matches!(a, Act::ConsumeOutput(k) if *k < 20)), "partial-output-consumption"))
}

fn heavy_noise(max_pair: u32) -> BoxedStrategy<Noise> {
    // reply-eliciting kinds dominate
    prop_oneof![
        4 => (proptest::collection::vec(traffic::gv_item(max_pair), 0..7), prop_oneof![3 => Just(0u8), 1 => 1u8..8], prop_oneof![2 => Just(0u8), 1 => any::<u8>()])
            .prop_map(|(items, trunc, pad)| Noise::GetValues { items, trunc, long: trunc % 3 == 1 || pad % 7 == 3, pad }),
        3 => (any::<u8>(), prop_oneof![Just(0u16), Just(1), any::<u16>()], prop_oneof![3 => 0u16..=30, 1 => 30u16..=700], prop_oneof![2 => Just(0u8), 1 => any::<u8>()])
            .prop_map(|(ty, id, len, pad)| Noise::UnknownType { ty, id, len, pad }),
        2 => (traffic::id_delta(), prop_oneof![2 => 1u16..=3, 1 => prop_oneof![Just(0u16), Just(4), any::<u16>()]], any::<u8>(), prop_oneof![2 => Just(0u8), 1 => any::<u8>()])
            .prop_map(|(id_delta, role, flags, pad)| Noise::ForeignBegin { id_delta, role, flags, pad }),
        2 => traffic::noise(max_pair),
    ]
    .boxed()
}

pub fn case_strategy() -> BoxedStrategy<Case> {
    let aborted = (
        traffic::preamble_spec(5, 200),
        any::<u16>(),
        prop_oneof![3 => Just(0u16), 1 => 1u16..=40],
        prop_oneof![3 => Just(0u8), 1 => any::<u8>()],
        proptest::collection::vec((any::<u16>(), heavy_noise(40)), 0..3),
    )
        .prop_map(|(pre, keep, abort_len, abort_pad, noise)| Aborted { pre, keep, abort_len, abort_pad, noise });
    (1u16..=3)
        .prop_flat_map(move |role| {
            (
                proptest::collection::vec(heavy_noise(40), 0..3),
                proptest::collection::vec(aborted.clone(), 0..3),
                traffic::preamble_spec(6, 300).prop_map(move |mut p| {
                    p.role = role;
                    p
                }),
                proptest::collection::vec((any::<u16>(), heavy_noise(40)), 0..6),
                (traffic::body_spec(role, 0, 40, true), proptest::collection::vec((any::<u16>(), heavy_noise(40)), 0..6)).prop_map(|(mut b, n)| {
                    b.noise = n;
                    b
                }),
                c02::buf_pick(),
                (gen::chunking(), gen::chunking()),
                (c02::schedule(), proptest::collection::vec((any::<u16>(), Just(Act::ForceAdvance)), 0..3)).prop_map(|(mut s, extra)| { for (at, a) in extra { let k = idx(at, s.len() + 1); s.insert(k, a); } s }),
                prop_oneof![Just(1u32), Just(10), 1u32..100000, Just(u32::MAX)],
            )
        })
        .prop_map(|(idle_noise, aborted, pre, pre_noise, body, buf, (c1, c2), schedule, max_conns)| Case {
            idle_noise,
            aborted,
            pre,
            pre_noise,
            body,
            buf,
            chunkings: vec![Chunking::One, c1, c2],
            schedule,
            max_conns,
        })
        .boxed()
}

pub fn property() -> Property {
    Property {
        id: "C04",
        level: "exploration",
        assumptions: vec![
            "oracle = reply model E1 (harness/src/model.rs): Unknown echo carries the record's own request id (the crate's documented/tested behaviour; identical to the specification for id 0), GetValuesResult lists exactly the requested known names once",
            "tolerances where the statement is silent: an empty-body GetValues may yield nothing or an empty result; a foreign-id BeginRequest with an unknown role during an active request may be answered CantMpxConn or UnknownRole",
            "emitted bytes are decoded by the independent codec and compared semantically (type, id, body fields, reserved bytes zero, any valid padding)",
        ],
        subs: vec![prop_sub(
            "replies",
            "traffic with reply-eliciting records at every position class: idle (before BeginRequest), inside abandoned preambles (BeginRequest+Params+same-id AbortRequest with body/padding), between Params records, between/inside stream phases; GetValues bodies from a grammar (known, unknown, repeated, non-UTF-8, value-carrying names, truncated trailing pair, empty body), all unknown type bytes, foreign BeginRequest incl. id 0 and unknown roles; 1-byte reads + 2 generated chunkings for the request parser, generated caller schedule with partial consume_output for the stream parser; non-trivial = >=3 replies in the history or a GetValues body split across parse calls; distinct = hash of the case",
            80_000,
            2_000_000,
            |_| case_strategy(),
            test,
        )],
    }
}
