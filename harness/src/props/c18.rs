//! C18 — input stream sequencing follows the role's order exactly.

use proptest::prelude::*;
use serde::{Deserialize, Serialize};

use fastcgi_server::protocol::{RecordType, Role};

use crate::engine::*;
use crate::gen::{self, Chunking};
use crate::model;
use crate::props::c02::{self, Act, Entry};
use crate::syncdrv::{self, rt, StreamDrv, Truth};
use crate::traffic::{self, Noise, Phase};
use crate::wire::{self, Rec, T_DATA, T_STDIN};
use crate::{vensure, vfail};

/// Reference acceptance rule: `None` always; a stream only if it belongs to the role and is not
/// earlier than the current selection; after `None`, only `None`.
pub fn accepts(order: &[u8], current: Option<u8>, requested: Option<u8>) -> bool {
    match (requested, current) {
        (None, _) => true,
        (Some(_), None) => false,
        (Some(r), Some(c)) => {
            let (Some(ri), Some(ci)) = (order.iter().position(|&x| x == r), order.iter().position(|&x| x == c)) else { return false };
            ri >= ci
        },
    }
}

// ---------------------------------------------------------------------------------------------
// (a) exhaustive selection table

#[derive(Clone, Debug, Serialize, Deserialize)]
struct TableCase {
    role: u16,
    /// selections made (all must be accepted) to reach the current state
    path: Vec<Option<u8>>,
    requested: Option<u8>,
    /// whether stream data is buffered when the request is made
    buffered: bool,
}

fn test_table(c: &TableCase) -> TestResult {
    let order = wire::role_streams(c.role).to_vec();
    // Role API agrees with the reference order
    let role = Role::try_from(c.role).map_err(|_| Fail::new("c18-role", "role rejected"))?;
    let api: Vec<u8> = role.input_streams().iter().map(|&t| u8::from(t)).collect();
    vensure!(api == order, "c18-role-order", "Role::input_streams({role:?}) = {api:?}, specification order {order:?}");
    let mut cur = None;
    let mut walked = Vec::new();
    loop {
        cur = role.next_input_stream(cur);
        match cur {
            Some(s) => walked.push(u8::from(s)),
            None => break,
        }
        vensure!(walked.len() <= 4, "c18-role-order", "next_input_stream does not terminate");
    }
    vensure!(walked == order, "c18-role-order", "next_input_stream walk for {role:?} = {walked:?}");

    // Build a parser with data for every stream of the role available.
    let id = 7u16;
    let mut recs = vec![Rec::new(wire::T_BEGIN, id, wire::begin_body(c.role, 1), 0), Rec::new(wire::T_PARAMS, id, vec![], 0)];
    let pre_n = recs.len();
    let mut cur_sel: Option<u8> = order.first().copied();
    // traffic: for each stream in order: data record(s) then terminator
    for &s in &order {
        recs.push(Rec::new(s, id, traffic::stream_content(s, 1, 10), 3));
        recs.push(Rec::new(s, id, traffic::stream_content(s, 2, 6), 0));
        recs.push(Rec::new(s, id, vec![], 0));
    }
    let wire_bytes = wire::encode_all(&recs);
    let pre_end: usize = recs[..pre_n].iter().map(Rec::wire_len).sum();
    let cfg = syncdrv::config(4096, 1);
    let (p, pos) = c02::enter(&Entry::Fresh, &cfg, &wire_bytes, pre_end)?;
    let mut p = p;
    vensure!(p.active_stream().map(u8::from) == cur_sel, "c18-initial", "initial selection {:?}, expected {cur_sel:?}", p.active_stream());
    // feed everything at once
    {
        let rest = &wire_bytes[pos..];
        let buf = p.input_buffer();
        buf[..rest.len()].copy_from_slice(rest);
        let st = p.parse(rest.len(), None).map_err(|e| Fail::new("stream-unexpected-error", format!("{e:?}")))?;
        if cur_sel.is_some() {
            vensure!(st.stream == 10 + 6 && st.stream_end, "c18-setup", "setup parse delivered {} bytes, stream_end {}", st.stream, st.stream_end);
        }
    }
    for sel in &c.path {
        vensure!(accepts(&order, cur_sel, *sel), "harness-inconsistent", "table path contains a rejected selection");
        let r = p.set_stream(sel.map(rt));
        vensure!(r.is_ok(), "c18-rejects-valid", "role {}: set_stream({sel:?}) rejected from {cur_sel:?}", c.role);
        cur_sel = *sel;
        vensure!(p.active_stream().map(u8::from) == cur_sel, "c18-active", "active_stream {:?} after selecting {sel:?}", p.active_stream());
        if cur_sel.is_some() {
            let st = p.parse(0, None).map_err(|e| Fail::new("stream-unexpected-error", format!("{e:?}")))?;
            vensure!(st.stream == 16 && st.stream_end, "c18-held-record", "after advancing to {cur_sel:?} the held records delivered {} bytes (stream_end {})", st.stream, st.stream_end);
        }
    }
    if !c.buffered {
        p.consume_stream(usize::MAX);
    }
    let before_buf = p.stream_buffer().to_vec();
    if c.buffered && cur_sel.is_some() {
        vensure!(before_buf.len() == 16, "c18-setup", "expected 16 buffered bytes, have {}", before_buf.len());
        let s = cur_sel.unwrap();
        let mut exp = traffic::stream_content(s, 1, 10);
        exp.extend(traffic::stream_content(s, 2, 6));
        vensure!(before_buf == exp, "stream-content", "buffered bytes of stream {s} differ from what was sent");
    }
    let want = accepts(&order, cur_sel, c.requested);
    let r = p.set_stream(c.requested.map(rt));
    vensure!(r.is_ok() == want, "c18-table", "role {} current {cur_sel:?}: set_stream({:?}) -> {:?}, role order says accept = {want}", c.role, c.requested, r.is_ok());
    if !want {
        vensure!(p.active_stream().map(u8::from) == cur_sel, "c18-reject-changes-state", "rejected selection changed active_stream to {:?}", p.active_stream());
        vensure!(p.stream_buffer() == &before_buf[..], "c18-reject-changes-state", "rejected selection changed stream_buffer");
    } else if c.requested == cur_sel {
        vensure!(p.active_stream().map(u8::from) == cur_sel && p.stream_buffer() == &before_buf[..], "c18-reselect-loses-data", "re-selecting the current stream changed buffered data ({} -> {} bytes)", before_buf.len(), p.stream_buffer().len());
    } else {
        vensure!(p.active_stream().map(u8::from) == c.requested, "c18-active", "active_stream {:?} after accepted selection of {:?}", p.active_stream(), c.requested);
        vensure!(p.stream_buffer().is_empty(), "c18-stale-data", "data of the previous stream still buffered after selecting {:?}", c.requested);
    }
    if c.requested.is_none() && want {
        // None is permanent
        for s in [T_STDIN, T_DATA] {
            vensure!(p.set_stream(Some(rt(s))).is_err(), "c18-none-not-permanent", "stream {s} selectable after None");
        }
        vensure!(p.active_stream().is_none(), "c18-none-not-permanent", "active stream changed after None");
    }
    Ok(Outcome::new(true).label_if(want, "accepted").label_if(!want, "rejected"))
}

fn table_cases() -> Vec<TableCase> {
    let mut out = Vec::new();
    for role in 1..=3u16 {
        let order = wire::role_streams(role).to_vec();
        // all reachable selections: every forward path through (order ++ None)
        let mut paths: Vec<Vec<Option<u8>>> = vec![vec![]];
        let mut frontier: Vec<(Vec<Option<u8>>, Option<u8>)> = vec![(vec![], order.first().copied())];
        while let Some((path, cur)) = frontier.pop() {
            let Some(c) = cur else { continue };
            let ci = order.iter().position(|&x| x == c).unwrap();
            let mut nexts: Vec<Option<u8>> = order[ci + 1..].iter().map(|&s| Some(s)).collect();
            nexts.push(None);
            for n in nexts {
                let mut p2 = path.clone();
                p2.push(n);
                paths.push(p2.clone());
                frontier.push((p2, n));
            }
        }
        for path in paths {
            for requested in [None, Some(T_STDIN), Some(T_DATA)] {
                for buffered in [false, true] {
                    out.push(TableCase { role, path: path.clone(), requested, buffered });
                }
            }
        }
    }
    out
}

// ---------------------------------------------------------------------------------------------
// (b) histories with arbitrary selections and record orders

#[derive(Clone, Debug, Serialize, Deserialize, PartialEq, Eq, Hash)]
pub struct SRec {
    /// 0 = Stdin, 1 = Data
    pub stream: u8,
    /// 0 = own id, otherwise foreign (delta)
    pub foreign: Option<u16>,
    pub len: u16,
    pub pad: u8,
}

#[derive(Clone, Debug, Serialize, Deserialize, PartialEq, Eq, Hash)]
pub enum HAct {
    Base(Act),
    Select(Option<u8>),
}

#[derive(Clone, Debug, Serialize, Deserialize)]
pub struct HCase {
    pub id: u16,
    pub role: u16,
    pub recs: Vec<SRec>,
    pub noise: Vec<(u16, Noise)>,
    pub buf: u32,
    pub entry: Entry,
    pub schedule: Vec<HAct>,
}

fn build_hist(c: &HCase) -> (Vec<Rec>, Vec<Rec>) {
    let pre = vec![Rec::new(wire::T_BEGIN, c.id, wire::begin_body(c.role, 0), 0), Rec::new(wire::T_PARAMS, c.id, vec![], 0)];
    let mut off = [0usize; 2];
    let mut body = Vec::new();
    for r in &c.recs {
        let ty = if r.stream == 0 { T_STDIN } else { T_DATA };
        match r.foreign {
            None => {
                let k = r.stream as usize;
                // position-dependent content per stream
                let all = traffic::stream_content(ty, 99, off[k] + r.len as usize);
                let mut payload = all[off[k]..].to_vec();
                if c.id % 3 == 1 {
                    // payload that looks like records of this request (own end markers first)
                    traffic::protocol_lookalike(&mut payload, ty, c.id, (c.id / 3) as u32 * 4 + (off[k] as u32 & 1));
                }
                body.push(Rec::new(ty, c.id, payload, r.pad));
                off[k] += r.len as usize;
            },
            Some(d) => body.push(Rec::new(ty, traffic::foreign_id(c.id, d), crate::gen::gen_bytes(r.len as usize, 5), r.pad)),
        }
    }
    let body = traffic::splice_noise(body, &c.noise, c.id, |_| Phase::Streams);
    (pre, body)
}

fn test_hist(c: &HCase) -> TestResult {
    let (pre, body) = build_hist(c);
    let mut wire_bytes = wire::encode_all(&pre);
    let pre_end = wire_bytes.len();
    wire_bytes.extend(wire::encode_all(&body));
    let sm = model::stream_model(c.id, c.role, &body, 1);
    let truth = Truth { content: &sm.content, end_header_fed_at: c02::truth_offsets(&sm, &body, pre_end) };
    let need = c.noise.iter().map(|(_, n)| n.longest_pair()).max().unwrap_or(0) + 13;
    let cfg = syncdrv::config((c.buf as usize).max(need), 1);
    let (p, pos) = c02::enter(&c.entry, &cfg, &wire_bytes, pre_end)?;
    let mut d = StreamDrv::new(p, &wire_bytes, pos);
    let order = sm.order.clone();
    let mut rejected = 0;
    let mut accepted_moves = 0;
    let mut i = 0usize;
    let mut budget = (wire_bytes.len() + 100) * c.schedule.len() * 4;
    let mult = 1 + wire_bytes.len() / 4000;
    while !d.all_fed() && !d.gave_up_after_end {
        budget -= 1;
        vensure!(budget > 0, "harness-inconsistent", "schedule made no progress within its budget");
        let act = &c.schedule[i % c.schedule.len()];
        i += 1;
        match act {
            HAct::Base(Act::Feed { n, dest }) => {
                if !d.make_room(&truth)? {
                    c02::unstick(&mut d, &order, &truth)?;
                }
                d.parse(((*n).max(1) as usize).saturating_mul(mult), dest.map(|d| d as usize), &truth)?;
            },
            HAct::Base(Act::Parse0 { dest }) => {
                d.parse(0, dest.map(|d| d as usize), &truth)?;
            },
            HAct::Base(Act::ConsumeStream(k)) => d.consume_stream(*k as usize, &truth)?,
            HAct::Base(Act::Compress) => d.compress(&truth)?,
            HAct::Base(Act::ConsumeOutput(k)) => d.consume_output(*k as usize)?,
            HAct::Base(Act::Advance) | HAct::Base(Act::ForceAdvance) => c02::maybe_advance(&mut d, &order, &truth)?,
            HAct::Base(Act::Reselect) => {
                let cur = d.p.active_stream();
                let _ = d.p.set_stream(cur);
            },
            HAct::Select(sel) => {
                let cur = d.active();
                let want = accepts(&order, cur, *sel);
                let before = d.p.stream_buffer().to_vec();
                let r = d.p.set_stream(sel.map(rt));
                vensure!(r.is_ok() == want, "c18-table", "role {} current {cur:?}: set_stream({sel:?}) -> {:?}, role order says accept = {want}", c.role, r.is_ok());
                if !want {
                    rejected += 1;
                    vensure!(d.active() == cur && d.p.stream_buffer() == &before[..], "c18-reject-changes-state", "rejected selection changed parser state");
                } else if *sel == cur {
                    vensure!(d.p.stream_buffer() == &before[..], "c18-reselect-loses-data", "re-selecting the current stream changed buffered data");
                } else {
                    accepted_moves += 1;
                    d.discarded += before.len();
                    vensure!(d.active() == *sel && d.p.stream_buffer().is_empty(), "c18-stale-data", "after selecting {sel:?}: active {:?}, {} bytes buffered", d.active(), d.p.stream_buffer().len());
                }
                d.check_prefix(&truth)?;
            },
        }
        vensure!(d.error.is_none(), "stream-unexpected-error", "parse failed with {:?}", d.error);
    }
    // quiescence without further selections (except Advance, which the C02 driver only uses
    // after end-of-stream and after consuming everything): here we do not advance at all.
    let final_active = d.active();
    let mut rounds = 0;
    loop {
        rounds += 1;
        vensure!(rounds < 100_000, "stream-livelock", "no quiescence");
        let before = (d.delivered.values().map(Vec::len).sum::<usize>(), d.p.output_buffer().len(), d.p.input_buffer().len());
        d.parse(0, None, &truth)?;
        d.consume_stream(usize::MAX, &truth)?;
        d.compress(&truth)?;
        let after = (d.delivered.values().map(Vec::len).sum::<usize>(), d.p.output_buffer().len(), d.p.input_buffer().len());
        if before == after {
            break;
        }
    }
    vensure!(d.error.is_none(), "stream-unexpected-error", "parse failed with {:?}", d.error);
    // every stream: delivered is a prefix of its content; nothing for streams outside the role
    for (s, got) in &d.delivered {
        let Some(want) = sm.content.get(s) else { vfail!("c18-foreign-stream-delivered", "{} bytes delivered for stream {s} which is not an input stream of role {}", got.len(), c.role) };
        vensure!(got.len() <= want.len() && want[..got.len()] == got[..], "stream-content", "stream {s}: delivered bytes are not a prefix of its content");
    }
    // the finally active stream was never left: it must be complete
    if let Some(f) = final_active {
        let got = d.delivered.get(&f).cloned().unwrap_or_default();
        vensure!(got == sm.content[&f], "c18-held-record", "stream {f} stayed selected to the end but only {} of {} bytes were delivered", got.len(), sm.content[&f].len());
        let ended = sm.end_rec.contains_key(&f);
        vensure!(d.end_reported.get(&f).copied().unwrap_or(false) == ended, "stream-end-missing", "stream {f}: end reported {:?}, traffic ends it: {ended}", d.end_reported.get(&f));
    }
    // replies: whatever was emitted is a prefix of what is owed, and everything owed for records
    // before the parser's current position has been emitted (a selection must not make the parser
    // forget a management record it was in the middle of)
    d.consume_output(usize::MAX)?;
    let replies = wire::decode_replies(&d.out_log).map_err(|e| Fail::new("c04-output-malformed", e))?;
    let covered = model::match_replies_prefix(&sm.replies, &replies).map_err(|e| Fail::new("c04-replies", e))?;
    if let Ok(left) = d.p.clone().into_input() {
        let cut = d.pos - left.len();
        let mut off = pre_end;
        let mut done_recs = 0;
        for r in &body {
            if off + r.wire_len() <= cut {
                done_recs += 1;
                off += r.wire_len();
            } else {
                break;
            }
        }
        let owed = sm.replies.iter().take_while(|e| e.cause < done_recs).count();
        vensure!(model::mandatory(&sm.replies[..covered]) >= model::mandatory(&sm.replies[..owed]), "c04-replies", "{} of the {} replies owed for the {done_recs} records already consumed were emitted", covered, owed);
    }
    let premature = sm.order.len() == 2 && sm.end_rec.get(&T_STDIN).is_some_and(|&i| body[i].ty == T_DATA);
    Ok(Outcome::new(accepted_moves >= 1 && rejected >= 1)
        .label_if(premature, "premature-later-stream")
        .label_if(rejected > 0, "rejected-selection")
        .label_if(d.discarded > 0, "discarded-buffered-data")
        .label_if(final_active.is_none(), "ends-at-none"))
}

fn srec() -> BoxedStrategy<SRec> {
    (
        0u8..2,
        prop_oneof![4 => Just(None), 1 => traffic::id_delta().prop_map(Some)],
        prop_oneof![2 => Just(0u16), 4 => 1u16..=20, 2 => 20u16..=600],
        prop_oneof![3 => Just(0u8), 1 => any::<u8>()],
    )
        .prop_map(|(stream, foreign, len, pad)| SRec { stream, foreign, len, pad })
        .boxed()
}

fn hact() -> BoxedStrategy<HAct> {
    prop_oneof![
        5 => c02::act().prop_map(HAct::Base),
        2 => prop_oneof![1 => Just(None), 2 => Just(Some(T_STDIN)), 4 => Just(Some(T_DATA))].prop_map(HAct::Select),
    ]
    .boxed()
}

fn hist_strategy() -> BoxedStrategy<HCase> {
    (
        traffic::req_id(),
        prop_oneof![3 => Just(1u16), 1 => Just(2u16), 5 => Just(3u16)],
        proptest::collection::vec(srec(), 0..10),
        proptest::collection::vec((any::<u16>(), traffic::noise(11)), 0..3),
        c02::buf_pick(),
        c02::entry(),
        (proptest::collection::vec(hact(), 1..10), 1u16..=300),
    )
        .prop_map(|(id, role, recs, noise, buf, entry, (mut schedule, n))| {
            if !schedule.iter().any(|a| matches!(a, HAct::Base(Act::Feed { .. }))) {
                schedule.push(HAct::Base(Act::Feed { n, dest: None }));
            }
            HCase { id, role, recs, noise, buf, entry, schedule }
        })
        .boxed()
}

pub fn property() -> Property {
    let table: Box<dyn Sub> = Box::new(EnumSub::<TableCase> {
        name: "selection_table",
        rule: "3 roles x every reachable current selection (all forward paths through the role's streams and None) x requested selection in {None, Stdin, Data} x {data buffered, not buffered}; accept/reject per role order, rejected calls change nothing, re-selection keeps data, None is permanent; Role::input_streams/next_input_stream equal the specification order; distinct by construction",
        exhaustive: Box::new(|_| true),
        guard_each: true,
        test: Box::new(test_table),
        body: Box::new(|_t, shard, n, sink| {
            for (i, c) in table_cases().into_iter().enumerate() {
                if i % n == shard && !sink.check(c) {
                    return;
                }
            }
        }),
    });
    let _ = (RecordType::Stdin, Chunking::Max, gen::idx(0, 1));
    Property {
        id: "C18",
        level: "exploration",
        assumptions: vec![
            "only input stream types (Stdin, Data) are passed to set_stream: the crate documents that precondition for its comparator with a debug assertion, and the property speaks of streams",
            "oracle = role order from the specification + record-level content model",
        ],
        subs: vec![
            table,
            prop_sub(
                "histories",
                "record sequences with Stdin/Data records in any order, matching and foreign ids, empty and non-empty, plus noise x caller schedules mixing the C02 actions with set_stream(None|Stdin|Data) at arbitrary points; every selection is checked against the role order; delivered bytes per stream must be a prefix of that stream's content, nothing for streams outside the role or after None, the finally selected stream must be complete (premature later-stream records are held, not lost); non-trivial = >=1 accepted move and >=1 rejected selection",
                400_000,
                8_000_000,
                |_| hist_strategy(),
                test_hist,
            ),
        ],
    }
}
