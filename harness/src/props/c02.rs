//! C02 — input stream extraction delivers exactly the stream's bytes, once, in order.

use std::collections::BTreeMap;

use proptest::prelude::*;
use serde::{Deserialize, Serialize};

use fastcgi_server::parser::{request, stream};

use crate::engine::*;
use crate::gen::{self, Chunking};
use crate::model::{self, PreResult, StreamModel};
use crate::syncdrv::{self, run_request, StreamDrv, Truth};
use crate::traffic::{self, BodySpec, PairSpec, ParamsSpec, PreambleSpec};
use crate::wire::{self, Rec};
use crate::{vensure, vfail};

#[derive(Clone, Debug, Serialize, Deserialize, PartialEq, Eq, Hash)]
pub enum Act {
    /// write up to n bytes into input_buffer and parse them; dest = Some(capacity) or None
    Feed { n: u16, dest: Option<u32> },
    Parse0 { dest: Option<u32> },
    ConsumeStream(u16),
    Compress,
    ConsumeOutput(u16),
    /// select the next stream, only honoured once end-of-stream was reported
    Advance,
    /// set_stream(active_stream()): documented no-op, legal at any time
    Reselect,
    /// select the next stream (or none after the last) right now, wherever the parser is
    /// (legal at any time; not generated for C02, whose completeness check needs every byte)
    ForceAdvance,
}

#[derive(Clone, Debug, Serialize, Deserialize)]
pub enum Entry {
    /// request parser -> into_stream_parser() with the shared buffer (inherits look-ahead)
    Shared { pre_chunk: Chunking },
    /// into_request() + stream::Parser::new with its own buffer
    Fresh,
}

#[derive(Clone, Debug, Serialize, Deserialize)]
pub struct Case {
    pub id: u16,
    pub role: u16,
    pub flags: u8,
    pub pre_pairs: Vec<PairSpec>,
    pub entry: Entry,
    /// buffer_size: at least this (raised to the documented bound if necessary)
    pub buf: u32,
    pub body: BodySpec,
    pub schedule: Vec<Act>,
    pub max_conns: u32,
    /// caller buffer used for every call of the final drain (a caller that always reads into the
    /// same large buffer); None = the internal buffer
    #[serde(default)]
    pub drain_dest: Option<u32>,
}

pub struct Built {
    pub pre_recs: Vec<Rec>,
    pub body_recs: Vec<Rec>,
    pub wire: Vec<u8>,
    pub pre_end: usize,
    pub need: usize,
}

pub fn build_parts(id: u16, role: u16, flags: u8, pre_pairs: &[PairSpec], body: &BodySpec) -> Built {
    let pre = PreambleSpec { id, role, flags, begin_pad: 0, params: ParamsSpec { pairs: pre_pairs.to_vec(), cut: traffic::CutMode::One, pads: vec![] } };
    let (pre_recs, _) = pre.build();
    let body_recs = body.build(id);
    let mut wire = wire::encode_all(&pre_recs);
    let pre_end = wire.len();
    wire.extend_from_slice(&wire::encode_all(&body_recs));
    let longest = pre.params.longest_pair().max(body.noise.iter().map(|(_, n)| n.longest_pair()).max().unwrap_or(0));
    Built { pre_recs, body_recs, wire, pre_end, need: longest + 13 }
}

/// Offsets (in the whole wire) just past the header of each stream's ending record.
pub fn truth_offsets(m: &StreamModel, body_recs: &[Rec], pre_end: usize) -> BTreeMap<u8, usize> {
    let mut starts = Vec::with_capacity(body_recs.len());
    let mut off = pre_end;
    for r in body_recs {
        starts.push(off);
        off += r.wire_len();
    }
    // The end of a stream cannot be known before the record that ends it has been "reached": at
    // least the four header bytes that identify it (version, type, request id) must have been fed
    // - for the stream's own empty terminator also its content length (6 bytes). Whether a parser
    // waits for the complete 8-byte header is its choice.
    m.end_rec
        .iter()
        .map(|(&s, &i)| (s, starts[i] + if body_recs[i].ty == s { 6 } else { 4 }))
        .collect()
}

/// Obtains a stream parser positioned right after the preamble. Returns (parser, wire position).
pub fn enter<'c>(
    entry: &Entry,
    cfg: &'c fastcgi_server::Config,
    wire: &[u8],
    pre_end: usize,
) -> Result<(stream::Parser<'c>, usize), Fail> {
    match entry {
        Entry::Shared { pre_chunk } => {
            let run = run_request(request::Parser::new(cfg), wire, 0, pre_chunk)?;
            vensure!(run.done, "c01-not-done", "request parser not done after the whole wire was fed");
            let fed = run.fed;
            match run.parser.into_stream_parser() {
                Ok(p) => Ok((p, fed)),
                Err(e) => vfail!("c01-error", "preamble rejected: {e:?}"),
            }
        },
        Entry::Fresh => {
            let run = run_request(request::Parser::new(cfg), &wire[..pre_end], 0, &Chunking::Max)?;
            vensure!(run.done, "c01-not-done", "request parser not done after the preamble");
            match run.parser.into_request() {
                Ok((req, left)) => {
                    vensure!(left.is_empty(), "c01-leftover", "leftover after an exactly-fed preamble: {} bytes", left.len());
                    Ok((stream::Parser::new(cfg, req), pre_end))
                },
                Err(e) => vfail!("c01-error", "preamble rejected: {e:?}"),
            }
        },
    }
}

fn test(c: &Case) -> TestResult {
    let b = build_parts(c.id, c.role, c.flags, &c.pre_pairs, &c.body);
    let pm = model::preamble_model(&b.pre_recs, c.max_conns as usize);
    vensure!(matches!(pm.result, PreResult::Done { .. }), "harness-inconsistent", "preamble model: {:?}", pm.result);
    let sm = model::stream_model(c.id, c.role, &b.body_recs, c.max_conns as usize);
    vensure!(sm.abort_at.is_none(), "harness-inconsistent", "C02 traffic must not contain an abort");
    let truth = Truth { content: &sm.content, end_header_fed_at: truth_offsets(&sm, &b.body_recs, b.pre_end) };
    let cfg = syncdrv::config((c.buf as usize).max(b.need), c.max_conns as usize);
    let (p, pos) = enter(&c.entry, &cfg, &b.wire, b.pre_end)?;
    vensure!(p.active_stream().map(u8::from) == sm.order.first().copied(), "stream-initial", "initial active stream {:?}, role order {:?}", p.active_stream(), sm.order);
    let mut d = StreamDrv::new(p, &b.wire, pos);
    d.check_prefix(&truth)?;

    drive_schedule(&mut d, &c.schedule, &sm.order, &truth)?;
    // ---- quiescence: keep parsing / consuming / advancing until nothing changes
    quiesce_with(&mut d, &sm.order, &truth, c.drain_dest.map(|x| x as usize))?;
    vensure!(d.error.is_none(), "stream-unexpected-error", "parse failed with {:?} on well-formed traffic", d.error);

    // ---- completeness
    for &s in &sm.order {
        let got = d.delivered.get(&s).cloned().unwrap_or_default();
        let want = &sm.content[&s];
        vensure!(got == *want, "stream-incomplete", "stream {s}: {} of {} bytes delivered after everything was fed and consumed", got.len(), want.len());
        let ended = sm.end_rec.contains_key(&s);
        vensure!(d.end_reported.get(&s).copied().unwrap_or(false) == ended, "stream-end-missing", "stream {s}: end-of-stream reported = {:?}, traffic ends the stream = {ended}", d.end_reported.get(&s));
    }
    d.consume_output(usize::MAX)?;
    let replies = wire::decode_replies(&d.out_log).map_err(|e| Fail::new("stream-output-malformed", e))?;
    let consumed = consumed_records(&d, &b.body_recs, b.pre_end);
    model::match_replies_upto(&sm.replies, &replies, consumed).map_err(|e| Fail::new("stream-replies", e))?;

    let multi = sm.parts.values().any(|p| p.len() >= 2);
    Ok(Outcome::new(multi && (d.saw_compress_nonempty || d.saw_partial_dest))
        .label_if(d.saw_compress_nonempty, "compress-with-buffered-data")
        .label_if(d.saw_partial_dest, "dest-filled")
        .label_if(d.saw_direct && d.saw_buffered, "mixed-direct-and-buffered")
        .label_if(matches!(c.entry, Entry::Shared { .. }), "shared-buffer")
        .label_if(pos > b.pre_end, "inherited-lookahead")
        .label_if(!sm.replies.is_empty(), "replies")
        .label_if(sm.order.len() == 2, "two-streams")
        .label_if(sm.order.is_empty(), "no-streams")
        .label_if(sm.content.values().any(|c| c.len() >= 65535), ">=65535-bytes"))
}

/// Follows `schedule` cyclically until every wire byte has been fed.
pub fn drive_schedule(d: &mut StreamDrv, schedule: &[Act], order: &[u8], truth: &Truth) -> Result<(), Fail> {
    let mut i = 0usize;
    // Long wires (65535-byte records) scale the read sizes so that a case stays cheap.
    let mult = 1 + d.wire.len() / 4000;
    let mut budget = (d.wire.len() + 100) * schedule.len() * 4;
    while !d.all_fed() && !d.gave_up_after_end {
        budget -= 1;
        vensure!(budget > 0, "harness-inconsistent", "schedule made no progress within its budget");
        let act = &schedule[i % schedule.len()];
        i += 1;
        match act {
            Act::Feed { n, dest } => {
                if !d.make_room(truth)? {
                    unstick(d, order, truth)?;
                }
                d.parse(((*n).max(1) as usize).saturating_mul(mult), dest.map(|d| d as usize), truth)?;
            },
            Act::Parse0 { dest } => {
                d.parse(0, dest.map(|d| d as usize), truth)?;
            },
            Act::ConsumeStream(k) => d.consume_stream(*k as usize, truth)?,
            Act::Compress => d.compress(truth)?,
            Act::ConsumeOutput(k) => d.consume_output(*k as usize)?,
            Act::Advance => maybe_advance(d, order, truth)?,
            Act::ForceAdvance => {
                if d.active().is_some() {
                    d.advance(order, truth)?;
                }
            },
            Act::Reselect => {
                let cur = d.p.active_stream();
                let before = d.p.stream_buffer().to_vec();
                let r = d.p.set_stream(cur);
                vensure!(r.is_ok() && d.p.active_stream() == cur && d.p.stream_buffer() == &before[..], "c18-reselect-loses-data", "re-selecting the active stream {cur:?} changed the parser's state");
                d.check_prefix(truth)?;
            },
        }
        if d.error.is_some() {
            return Ok(());
        }
    }
    Ok(())
}

/// Number of leading body records that the parser has taken in completely (fed minus what
/// `into_input` would hand back): the replies they cause are owed, later ones are not yet.
pub fn consumed_records(d: &StreamDrv, body: &[Rec], pre_end: usize) -> usize {
    let rem = d.p.clone().into_input().map(|v| v.len()).unwrap_or(0);
    let consumed = d.pos.saturating_sub(rem);
    let mut off = pre_end;
    let mut k = 0;
    for r in body {
        off += r.wire_len();
        if off <= consumed {
            k += 1;
        } else {
            break;
        }
    }
    k
}

pub fn maybe_advance(d: &mut StreamDrv, order: &[u8], t: &Truth) -> Result<(), Fail> {
    if let Some(s) = d.active() {
        if d.end_reported.get(&s) == Some(&true) {
            d.consume_stream(usize::MAX, t)?; // C02 checks completeness, so nothing is discarded
            d.advance(order, t)?;
        }
    }
    Ok(())
}

/// The input buffer is full of bytes the parser will not take: legal only while it is holding
/// an end-of-stream header for the caller to act on.
pub fn unstick(d: &mut StreamDrv, order: &[u8], t: &Truth) -> Result<(), Fail> {
    for _ in 0..4 {
        d.parse(0, None, t)?;
        if d.make_room(t)? {
            return Ok(());
        }
        match d.active() {
            Some(s) if d.end_reported.get(&s) == Some(&true) => {
                d.consume_stream(usize::MAX, t)?;
                d.advance(order, t)?;
            },
            _ => break,
        }
    }
    if d.error.is_some() {
        return Ok(());
    }
    if d.active().is_none() {
        // No stream is selected any more (all of the role's streams are over, or it has none):
        // a parser may decline whatever follows and leave it to the next request parser.
        d.gave_up_after_end = true;
        return Ok(());
    }
    vfail!("stream-stuck", "input buffer stays full ({} bytes) although stream data was consumed and the buffer compacted; active stream {:?}", d.p.input_buffer().len(), d.active());
}

pub fn quiesce(d: &mut StreamDrv, order: &[u8], t: &Truth) -> Result<(), Fail> {
    quiesce_with(d, order, t, None)
}

pub fn quiesce_with(d: &mut StreamDrv, order: &[u8], t: &Truth, dest: Option<usize>) -> Result<(), Fail> {
    let mut rounds = 0;
    loop {
        rounds += 1;
        vensure!(rounds < 100_000, "stream-livelock", "parser keeps reporting progress without end");
        let before = (d.delivered.values().map(Vec::len).sum::<usize>(), d.out_log.len() + d.p.output_buffer().len(), d.active(), d.p.input_buffer().len());
        if d.error.is_some() {
            return Ok(());
        }
        d.parse(0, dest, t)?;
        d.consume_stream(usize::MAX, t)?;
        d.compress(t)?;
        maybe_advance(d, order, t)?;
        let after = (d.delivered.values().map(Vec::len).sum::<usize>(), d.out_log.len() + d.p.output_buffer().len(), d.active(), d.p.input_buffer().len());
        if before == after {
            return Ok(());
        }
    }
}

pub fn act() -> BoxedStrategy<Act> {
    // caller buffers: mostly small; occasionally at and beyond the 16-bit limits of a record
    let dest = || prop_oneof![
        30 => Just(None),
        20 => prop_oneof![Just(0u32), 1u32..=9, 1u32..=300, 300u32..=9000].prop_map(Some),
        1 => prop_oneof![Just(65535u32), Just(65536), Just(65537), Just(70000), Just(131072), Just(131073)].prop_map(Some),
    ];
    let n = prop_oneof![3 => 1u16..=9, 3 => 1u16..=300, 2 => Just(u16::MAX), 1 => 300u16..=20000];
    prop_oneof![
        6 => (n, dest()).prop_map(|(n, dest)| Act::Feed { n, dest }),
        2 => dest().prop_map(|dest| Act::Parse0 { dest }),
        4 => prop_oneof![1u16..=9, 1u16..=400, Just(u16::MAX)].prop_map(Act::ConsumeStream),
        3 => Just(Act::Compress),
        1 => prop_oneof![3 => 1u16..=9, 2 => Just(u16::MAX), 1 => Just(15u16), 1 => Just(16u16), 1 => 10u16..=200].prop_map(Act::ConsumeOutput),
        2 => Just(Act::Advance),
        1 => Just(Act::Reselect),
    ]
    .boxed()
}

pub fn schedule() -> BoxedStrategy<Vec<Act>> {
    (proptest::collection::vec(act(), 0..10), 1u16..=400, prop::option::of(1u16..=64))
        .prop_map(|(mut v, n, dest)| {
            if !v.iter().any(|a| matches!(a, Act::Feed { .. })) {
                v.push(Act::Feed { n, dest: dest.map(u32::from) });
            }
            v
        })
        .boxed()
}

pub fn entry() -> BoxedStrategy<Entry> {
    prop_oneof![2 => gen::chunking().prop_map(|pre_chunk| Entry::Shared { pre_chunk }), 1 => Just(Entry::Fresh)].boxed()
}

pub fn buf_pick() -> BoxedStrategy<u32> {
    prop_oneof![3 => Just(0u32), 2 => Just(32u32), 2 => 25u32..=120, 2 => Just(256u32), 2 => Just(8192u32), 1 => Just(70000u32), 1 => Just(131072u32), 1 => Just(200000u32)].boxed()
}

pub fn case_strategy() -> BoxedStrategy<Case> {
    prop_oneof![9 => Just(1u16), 2 => Just(2u16), 9 => Just(3u16)]
        .prop_flat_map(|role| {
            (
                traffic::req_id(),
                Just(role),
                traffic::flags(),
                proptest::collection::vec(traffic::pair_spec(30), 0..3),
                entry(),
                buf_pick(),
                traffic::body_spec(role, 4, 11, false),
                schedule(),
                prop_oneof![Just(1u32), 1u32..5000],
            )
        })
        .prop_map(|(id, role, flags, pre_pairs, entry, buf, body, schedule, max_conns)| {
            // derived (keeps the tuple arity): which caller buffer the final drain uses
            let drain_dest = match (max_conns as usize + schedule.len() * 7 + id as usize) % 16 {
                0 => Some(65536u32),
                1 => Some(131072),
                2 => Some(65535),
                3 => Some(70000),
                4 | 5 => Some(1 + (id as u32 % 300)),
                _ => None,
            };
            Case { id, role, flags, pre_pairs, entry, buf, body, schedule, max_conns, drain_dest }
        })
        .boxed()
}

pub fn property() -> Property {
    Property {
        id: "C02",
        level: "exploration",
        assumptions: vec![
            "oracle = record-level stream-content model; payload bytes are pseudo-random per stream position, so reordering/duplication/corruption cannot cancel out",
            "the driver only enforces documented preconditions (stream_buffer empty before dest; nothing between input_buffer() and parse()) and frees space by consume+compress when the input buffer is full",
            "GetValues pairs obey the documented buffer bound (name+value+13 <= buffer_size; known names always fit the 24-byte minimum)",
            "the crate's debug assertions (buffer geometry invariants) and overflow checks are compiled in",
        ],
        subs: vec![prop_sub(
            "stream",
            "generated requests (3 roles) x stream records (1..65535 bytes, padding 0..255, terminated or ended by the next stream / not at all) x interleaved GetValues/unknown/stale Params/duplicate+foreign BeginRequest/foreign-id records x entry via shared or fresh buffer (24 bytes upward) x caller schedules of Feed(dest|None)/Parse0/ConsumeStream/Compress/ConsumeOutput/Advance; invariants after every action (delivered++buffered is a prefix of the model content, Status counts, end-of-stream neither early nor lost, persistent), completeness and exact replies at quiescence; non-trivial = a stream spans >=2 records and the schedule compacted with buffered data or filled a dest; distinct = hash of the case",
            40_000,
            1_200_000,
            |_| case_strategy(),
            test,
        )],
    }
}
