//! C10 — output records are complete, never interleaved, carry exactly the written bytes.

use std::pin::Pin;
use std::sync::{Arc, Mutex};
use std::task::{Context, Poll, Waker};

use futures_util::io::{AsyncRead, AsyncWrite};
use proptest::prelude::*;
use serde::{Deserialize, Serialize};

use fastcgi_server::async_io::{Request, StreamWriter};
use fastcgi_server::parser::{request, stream};

use crate::aio::*;
use crate::conn;
use crate::engine::*;
use crate::gen;
use crate::model;
use crate::syncdrv::{self, rt};
use crate::traffic::{self, Noise, Phase};
use crate::wire::{self, Rec};
use crate::{vensure, vfail};

#[derive(Clone, Debug, Serialize, Deserialize, PartialEq, Eq, Hash)]
pub enum WOp {
    Write(u32),
    Flush,
    /// like Write, but when the write is re-polled after a Pending result the caller passes a
    /// buffer that has grown at the end by this many bytes (as `io::copy`-style pumps do); the
    /// record announced by the first poll must still carry exactly its first bytes
    WriteGrowing(u32, u8),
    /// `poll_write_vectored` with the bytes of a Write(len) cut into 2..4 slices (pattern: bit 0 =
    /// an empty slice in front, bits 1..2 / 3..4 = where the cuts are): whatever count it reports
    /// is a prefix of the concatenation and appears as one record, like any other write
    WriteVectored(u32, u8),
}

#[derive(Clone, Debug, Serialize, Deserialize)]
pub struct WriterSpec {
    pub stderr: bool,
    /// obtained by cloning the writer with this index instead of `output_stream`
    pub clone_of: Option<u8>,
    pub ops: Vec<WOp>,
}

#[derive(Clone, Debug, Serialize, Deserialize)]
pub struct Case {
    pub id: u16,
    pub writers: Vec<WriterSpec>,
    /// management records the request's own reader finds in its input (their replies are
    /// flushed through the same lock), and the buffer sizes of its poll_read calls
    pub mgmt: Vec<Noise>,
    pub reads: Vec<u16>,
    /// actor picked at each step (index modulo number of actors; the reader is the last actor)
    pub order: Vec<u8>,
    /// poll actors even when their waker has not fired
    pub spurious: bool,
    pub write_script: Vec<WStep>,
    pub vectored: bool,
    /// the reader abandons a read that is still pending after this many polls (as a timeout
    /// would) and performs no further reads
    #[serde(default)]
    pub cancel_after: Option<u8>,
    /// finish with `Request::close` once every writer is done and dropped
    #[serde(default)]
    pub close_at_end: bool,
}

/// Content of a write: first byte identifies (writer, op) so that records map back uniquely.
pub fn write_data(writer: usize, op: usize, len: usize) -> Vec<u8> {
    let mut d = gen::gen_bytes(len, (writer * 131 + op * 7 + 1) as u32);
    if !d.is_empty() {
        d[0] = ((writer as u8) << 5) | (op as u8 & 0x1f);
    }
    d
}

struct Actor {
    /// None until the task's first operation when writers are created lazily
    w: Option<StreamWriter<MockWriter>>,
    ty: u8,
    ops: Vec<WOp>,
    next: usize,
    flag: Arc<FlagWaker>,
    /// data of the write in progress
    cur: Option<Vec<u8>>,
    /// record length announced by the first poll of the write in progress
    announced: usize,
}

pub fn stream_parser_for<'c>(cfg: &'c fastcgi_server::Config, id: u16, role: u16, flags: u8) -> Result<stream::Parser<'c>, Fail> {
    let pre = wire::encode_all(&[Rec::new(wire::T_BEGIN, id, wire::begin_body(role, flags), 0), Rec::new(wire::T_PARAMS, id, vec![], 0)]);
    let mut p = request::Parser::new(cfg);
    p.input_buffer()[..pre.len()].copy_from_slice(&pre);
    let y = p.parse(pre.len());
    vensure!(y.done, "c01-not-done", "minimal preamble not parsed");
    p.into_stream_parser().map_err(|e| Fail::new("c01-error", format!("{e:?}")))
}

pub fn test(c: &Case) -> TestResult {
    let cfg = syncdrv::config(256, 3);
    let sp = stream_parser_for(&cfg, c.id, 1, 1)?;
    // input of the request's reader: management records then a little stdin data, no end
    let mut in_recs: Vec<Rec> = Vec::new();
    for n in c.mgmt.iter().filter(|n| conn::conn_noise_ok(n)) {
        if let Some(r) = n.build(c.id, Phase::Streams) {
            in_recs.push(r);
        }
    }
    in_recs.push(Rec::new(wire::T_STDIN, c.id, vec![1, 2, 3], 0));
    in_recs.push(Rec::new(wire::T_STDIN, c.id, gen::gen_bytes(13, 77), 3));
    let stdin: Vec<u8> = [vec![1, 2, 3], gen::gen_bytes(13, 77)].concat();
    let mut got = 0usize;
    let input = wire::encode_all(&in_recs);
    let e1: Vec<_> = model::stream_model(c.id, 1, &in_recs, 3).replies;
    // Large write volumes scale the accepted sizes so that a case stays cheap.
    let total: usize = c.writers.iter().flat_map(|w| w.ops.iter()).map(|o| if let WOp::Write(n) | WOp::WriteGrowing(n, _) | WOp::WriteVectored(n, _) = o { (*n as usize).min(65535) } else { 0 }).sum();
    let mult = 1 + total / 3000;
    let write_script: Vec<WStep> = c.write_script.iter().map(|s| match s {
        WStep::Accept(n) => WStep::Accept((*n as usize * mult).min(65535) as u16),
        WStep::Pending => WStep::Pending,
    }).collect();
    let world = Arc::new(Mutex::new(World::new(input.clone(), vec![(input.len(), Cond::Now)], vec![RStep::Give(u16::MAX)], write_script, c.vectored, IoFault::None)));
    world.lock().unwrap().close_at_end = false;
    // one case in four: the transport's flush is not ready at once
    if (c.order.len() + c.reads.len()) % 4 == 0 {
        world.lock().unwrap().flush_script = vec![true, false, true, true, false];
    }
    let mut req = Request::new(sp, MockReader(world.clone()), MockWriter(world.clone()));
    vensure!(req.is_writeable(), "c09-not-writeable", "Responder request is not writeable after its preamble");

    // One case in three creates each writer only when its task first runs (a handler that looks
    // at its input before it asks for an output stream): a reply may then be half written while
    // no writer exists yet.
    let lazy = (c.order.len() + c.id as usize) % 3 == 0;
    let mut actors: Vec<Actor> = Vec::new();
    for spec in &c.writers {
        let src = spec.clone_of.filter(|_| !actors.is_empty()).map(|k| k as usize % actors.len());
        let ty = match src {
            Some(k) => actors[k].ty,
            None => if spec.stderr { wire::T_STDERR } else { wire::T_STDOUT },
        };
        let w = if lazy {
            None
        } else {
            let w = match src.and_then(|k| actors[k].w.as_ref()) {
                Some(w0) => w0.clone(),
                None => req.output_stream(rt(ty)),
            };
            vensure!(u8::from(w.stream()) == ty, "c10-writer-stream", "writer reports stream {:?}, expected {ty}", w.stream());
            Some(w)
        };
        actors.push(Actor { w, ty, ops: spec.ops.clone(), next: 0, flag: FlagWaker::new(true), cur: None, announced: 0 });
    }
    let n_writers = actors.len();
    let reader_flag = FlagWaker::new(true);
    let mut reads_done = 0usize;
    let mut reader_pendings = 0usize;
    let mut reader_cancelled = false;
    let mut reader_finished = c.reads.is_empty();
    // completed writes: (writer, op, type, bytes accepted)
    let mut completed: Vec<(usize, usize, u8, Vec<u8>)> = Vec::new();
    let mut contended_mid_record = false;
    let mut steps = 0usize;
    let mut validated = 0usize;
    let mut idle_rounds = 0usize;
    let n_actors = n_writers + 1;
    loop {
        let all_done = actors.iter().all(|a| a.next >= a.ops.len()) && reader_finished;
        if all_done {
            break;
        }
        vensure!(steps < 400_000, "c10-no-progress", "writers did not finish within the step budget");
        let pick = c.order.get(steps % c.order.len().max(1)).copied().unwrap_or(0) as usize % n_actors;
        steps += 1;
        // choose the first unfinished, pollable actor starting from `pick`
        let mut chosen = None;
        for off in 0..n_actors {
            let k = (pick + off) % n_actors;
            let unfinished = if k == n_writers { !reader_finished } else { actors[k].next < actors[k].ops.len() };
            let woken = if k == n_writers { reader_flag.is_woken() } else { actors[k].flag.is_woken() };
            if unfinished && (woken || (c.spurious && !reader_cancelled && off == 0)) {
                chosen = Some(k);
                break;
            }
        }
        let Some(k) = chosen else {
            idle_rounds += 1;
            if idle_rounds > n_actors + 1 {
                if reader_cancelled {
                    // the abandoned read keeps the request's output lock (it is released when the
                    // request is polled again or closed): the writers wait for it legitimately
                    break;
                }
                let blocked: Vec<usize> = (0..n_writers).filter(|&i| actors[i].next < actors[i].ops.len()).collect();
                vfail!("c10-lost-wakeup", "no actor is runnable but writers {blocked:?} (reader finished: {reader_finished}) still have work: a task waiting for the output lock was never woken");
            }
            continue;
        };
        idle_rounds = 0;
        let calls_before = world.lock().unwrap().write_calls;
        if k == n_writers {
            reader_flag.take();
            let waker = Waker::from(reader_flag.clone());
            let mut cx = Context::from_waker(&waker);
            let cap = c.reads[reads_done % c.reads.len()] as usize;
            let mut buf = vec![0u8; cap];
            world.lock().unwrap().begin_poll();
            let polled = Pin::new(&mut req).poll_read(&mut cx, &mut buf);
            let waits_for_input = world.lock().unwrap().end_poll(polled.is_pending());
            match polled {
                Poll::Ready(Ok(n)) => {
                    // C09 in the multi-task setting: exactly the stream's bytes, in order, once
                    vensure!(n <= cap, "c09-read-count", "poll_read into {cap} bytes returned {n}");
                    vensure!(n > 0 || cap == 0, "c09-early-eof", "poll_read returned 0 into a {cap}-byte buffer although the stream has not ended ({got} bytes delivered)");
                    vensure!(got + n <= stdin.len() && buf[..n] == stdin[got..got + n], "c09-data", "poll_read delivered {:02x?} after {got} stream bytes, the stream continues with {:02x?}", &buf[..n], &stdin[got.min(stdin.len())..(got + n).min(stdin.len())]);
                    got += n;
                    std::task::Wake::wake_by_ref(&reader_flag); // the task goes on with its next operation
                    reads_done += 1;
                    if reads_done >= c.reads.len() {
                        reader_finished = true;
                    }
                },
                Poll::Ready(Err(e)) => vfail!("c10-reader-error", "Request::poll_read failed: {e}"),
                Poll::Pending => {
                    reader_pendings += 1;
                    // waiting for input that will not come (no more client data) ends the reader
                    let w = world.lock().unwrap();
                    // (a request that is in the middle of flushing a reply - waiting for the
                    // writer, holding the output lock - has to be polled on)
                    if w.read_pos >= w.client.len() && w.reader_waker.is_some() && waits_for_input {
                        reader_finished = true;
                    }
                    if c.cancel_after.is_some_and(|k| reader_pendings > k as usize) {
                        reader_finished = true; // the read is abandoned
                        reader_cancelled = true;
                    }
                },
            }
        } else {
            if actors[k].w.is_none() {
                let w = req.output_stream(rt(actors[k].ty));
                vensure!(u8::from(w.stream()) == actors[k].ty, "c10-writer-stream", "writer reports stream {:?}, expected {}", w.stream(), actors[k].ty);
                actors[k].w = Some(w);
            }
            let a = &mut actors[k];
            a.flag.take();
            let waker = Waker::from(a.flag.clone());
            let mut cx = Context::from_waker(&waker);
            match a.ops[a.next].clone() {
                WOp::Write(len) | WOp::WriteGrowing(len, _) => {
                    let first_poll = a.cur.is_none();
                    if first_poll {
                        a.cur = Some(write_data(k, a.next, len as usize));
                        a.announced = (len as usize).min(65535);
                    } else if let WOp::WriteGrowing(_, g) = a.ops[a.next] {
                        // grow once, at the end
                        let d = a.cur.as_mut().unwrap();
                        if d.len() == len as usize && len > 0 {
                            d.extend(std::iter::repeat(0xEE).take(g as usize + 1));
                        }
                    }
                    let announced = a.announced;
                    let data = a.cur.as_ref().unwrap();
                    match Pin::new(a.w.as_mut().unwrap()).poll_write(&mut cx, data) {
                        Poll::Ready(Ok(n)) => {
                            // "n capped at 65535 per call": a write may accept fewer bytes than
                            // offered (like any AsyncWrite), never more than the buffer it was
                            // first polled with nor more than fits one record, and not nothing
                            let cap = announced;
                            vensure!(n <= cap && (n > 0 || cap == 0), "c10-write-count", "poll_write of {} bytes (first polled with {cap} usable) returned {n}", data.len());
                            if n > 0 {
                                completed.push((k, a.next, a.ty, data[..n].to_vec()));
                            }
                            a.cur = None;
                            a.next += 1;
                            std::task::Wake::wake_by_ref(&a.flag);
                        },
                        Poll::Ready(Err(e)) => vfail!("c10-write-error", "poll_write failed on a fault-free transport: {e}"),
                        Poll::Pending => {
                            let w = world.lock().unwrap();
                            if w.write_calls == calls_before {
                                // blocked on the lock, not on the transport
                                let (_, used) = wire::decode_log(&w.log[validated..]).map_err(|e| Fail::new("c10-log-malformed", e))?;
                                if validated + used < w.log.len() {
                                    contended_mid_record = true;
                                }
                            }
                        },
                    }
                },
                WOp::WriteVectored(len, pat) => {
                    if a.cur.is_none() {
                        a.cur = Some(write_data(k, a.next, len as usize));
                        a.announced = (len as usize).min(65535);
                    }
                    let announced = a.announced;
                    let data = a.cur.as_ref().unwrap();
                    let l = data.len();
                    let c1 = l * (1 + usize::from((pat >> 1) & 3)) / 6;
                    let c2 = c1 + (l - c1) * usize::from((pat >> 3) & 3) / 4;
                    let mut slices: Vec<std::io::IoSlice<'_>> = Vec::new();
                    if pat & 1 == 1 {
                        slices.push(std::io::IoSlice::new(&[]));
                    }
                    slices.push(std::io::IoSlice::new(&data[..c1]));
                    slices.push(std::io::IoSlice::new(&data[c1..c2]));
                    if pat & 0x20 != 0 {
                        slices.push(std::io::IoSlice::new(&[]));
                    }
                    slices.push(std::io::IoSlice::new(&data[c2..]));
                    match Pin::new(a.w.as_mut().unwrap()).poll_write_vectored(&mut cx, &slices) {
                        Poll::Ready(Ok(n)) => {
                            vensure!(n <= announced && (n > 0 || announced == 0), "c10-write-count", "poll_write_vectored of {l} bytes in {} slices returned {n}", slices.len());
                            if n > 0 {
                                completed.push((k, a.next, a.ty, data[..n].to_vec()));
                            }
                            a.cur = None;
                            a.next += 1;
                            std::task::Wake::wake_by_ref(&a.flag);
                        },
                        Poll::Ready(Err(e)) => vfail!("c10-write-error", "poll_write_vectored failed on a fault-free transport: {e}"),
                        Poll::Pending => {
                            let w = world.lock().unwrap();
                            if w.write_calls == calls_before {
                                let (_, used) = wire::decode_log(&w.log[validated..]).map_err(|e| Fail::new("c10-log-malformed", e))?;
                                if validated + used < w.log.len() {
                                    contended_mid_record = true;
                                }
                            }
                        },
                    }
                },
                WOp::Flush => match Pin::new(a.w.as_mut().unwrap()).poll_flush(&mut cx) {
                    Poll::Ready(Ok(())) => {
                        a.next += 1;
                        std::task::Wake::wake_by_ref(&a.flag);
                    },
                    Poll::Ready(Err(e)) => vfail!("c10-write-error", "poll_flush failed: {e}"),
                    Poll::Pending => {},
                },
            }
        }
        // the log must always decode as complete records plus at most one partial one
        let w = world.lock().unwrap();
        let (_, used) = wire::decode_log(&w.log[validated..]).map_err(|e| Fail::new("c10-log-malformed", e))?;
        validated += used;
    }
    drop(actors);
    // ---- optionally end the request the regular way: pending replies, then the epilogue
    let mut closed = false;
    if c.close_at_end || reader_cancelled {
        let flag = FlagWaker::new(true);
        let waker = Waker::from(flag.clone());
        let mut cx = Context::from_waker(&waker);
        let mut fut = Box::pin(req.close(fastcgi_server::ExitStatus::SUCCESS));
        let mut polls = 0;
        loop {
            polls += 1;
            vensure!(polls < 200_000, "c10-no-progress", "Request::close did not finish");
            vensure!(flag.take(), "c10-lost-wakeup", "Request::close is pending without a wake-up");
            if let Poll::Ready(r) = std::future::Future::poll(fut.as_mut(), &mut cx) {
                vensure!(r.is_ok(), "c10-close-error", "Request::close failed on a fault-free transport: {:?}", r.err().map(|e| e.kind()));
                break;
            }
        }
        closed = true;
    } else {
        drop(req);
    }

    // ---- final accounting on the byte log
    let w = world.lock().unwrap();
    let (recs, used) = wire::decode_log(&w.log).map_err(|e| Fail::new("c10-log-malformed", e))?;
    vensure!(used == w.log.len(), "c10-partial-record", "all writes completed but the log ends with an incomplete record ({used} of {} bytes)", w.log.len());
    let mut mgmt = Vec::new();
    let mut last_op: Vec<Option<usize>> = vec![None; n_writers];
    let mut seen = vec![false; completed.len()];
    for r in &recs {
        match wire::classify_out(r).map_err(|e| Fail::new("c10-log-malformed", e))? {
            wire::Reply::Stream { ty, id, payload } => {
                vensure!(id == c.id, "c10-record-id", "output record at {} carries request id {id}, expected {}", r.at, c.id);
                if payload.is_empty() {
                    vensure!(closed, "c10-empty-record", "empty output record at {} (would end the stream)", r.at);
                    continue;
                }
                vensure!(r.pad.len() < 8 && (payload.len() + r.pad.len()) % 8 == 0, "c10-padding", "record at {}: content {} padding {}", r.at, payload.len(), r.pad.len());
                let (wi, oi) = ((payload[0] >> 5) as usize, (payload[0] & 0x1f) as usize);
                let Some(ci) = completed.iter().position(|(a, b, _, _)| *a == wi && *b == oi) else {
                    vfail!("c10-unknown-record", "record at {} ({} bytes, type {ty}) does not correspond to any completed write (tag writer {wi} op {oi})", r.at, payload.len());
                };
                vensure!(!seen[ci], "c10-duplicate-record", "write (writer {wi}, op {oi}) appears twice on the log");
                seen[ci] = true;
                let (_, _, wty, bytes) = &completed[ci];
                vensure!(*wty == ty, "c10-record-type", "write of writer {wi} (stream {wty}) appears as a record of type {ty}");
                vensure!(*bytes == payload, "c10-record-content", "record for writer {wi} op {oi}: {} payload bytes, write accepted {} (first difference at {:?})", payload.len(), bytes.len(), payload.iter().zip(bytes.iter()).position(|(a, b)| a != b));
                vensure!(last_op[wi].map_or(true, |p| p < oi), "c10-writer-order", "writer {wi}: op {oi} appears after op {:?}", last_op[wi]);
                last_op[wi] = Some(oi);
            },
            other => mgmt.push(other),
        }
    }
    // C08 in the multi-task setting: whenever the request's reader had to wait for the client,
    // the replies owed for the records it had been handed were already on the log (a writer on
    // another task holding the output lock must delay the *read*, not the reply)
    {
        let mut offs = Vec::with_capacity(in_recs.len() + 1);
        let mut o = 0usize;
        for r in &in_recs {
            offs.push(o);
            o += r.wire_len();
        }
        offs.push(o);
        for &(log_len, read_pos) in &w.suspensions {
            let k = offs.partition_point(|&x| x <= read_pos).saturating_sub(1);
            let owed = model::mandatory(&e1.iter().filter(|e| e.cause < k).cloned().collect::<Vec<_>>());
            let (lr, _) = wire::decode_log(&w.log[..log_len]).map_err(|e| Fail::new("c10-log-malformed", e))?;
            let have = lr.iter().filter(|r| !matches!(r.ty, wire::T_STDOUT | wire::T_STDERR)).count();
            vensure!(have >= owed, "c08-owed-at-park", "the request's reader waits for client input (after {read_pos} bytes = {k} records) while only {have} of {owed} owed replies are on the log ({log_len} bytes written)");
        }
    }
    if closed {
        // the end-of-request sequence: the two stream ends directly followed by EndRequest, after
        // every stream record; only management replies (for input parsed while the request was
        // being closed) may follow it
        let pos = recs.iter().position(|r| r.ty == wire::T_END && r.id == c.id);
        let ok = pos.is_some_and(|p| {
            p >= 2
                && recs[p - 2].payload.is_empty() && recs[p - 1].payload.is_empty()
                && [recs[p - 2].ty.min(recs[p - 1].ty), recs[p - 2].ty.max(recs[p - 1].ty)] == [wire::T_STDOUT, wire::T_STDERR]
                && recs[p + 1..].iter().all(|r| !matches!(r.ty, wire::T_STDOUT | wire::T_STDERR) && !(r.ty == wire::T_END && r.id == c.id))
                && recs[..p - 2].iter().all(|r| !(matches!(r.ty, wire::T_STDOUT | wire::T_STDERR) && r.payload.is_empty()))
        });
        vensure!(ok, "c17-epilogue", "after close() the log does not contain exactly one end-of-request sequence (two stream-end records, EndRequest for id {}) behind all stream records; last records: {:?}", c.id, recs[recs.len().saturating_sub(4)..].iter().map(|r| (r.ty, r.id, r.payload.len())).collect::<Vec<_>>());
        let e = mgmt.iter().position(|m| matches!(m, wire::Reply::End { id, proto: 0, app: 0 } if *id == c.id));
        vensure!(e.is_some(), "c17-epilogue", "EndRequest of the closed request does not carry RequestComplete / status 0: {:?}", mgmt.iter().find(|m| matches!(m, wire::Reply::End { id, .. } if *id == c.id)));
        mgmt.remove(e.unwrap());
    }
    vensure!(seen.iter().all(|&s| s), "c10-missing-record", "{} completed write(s) have no record on the log", seen.iter().filter(|&&s| !s).count());
    model::match_replies_prefix(&e1, &mgmt).map_err(|e| Fail::new("c10-mgmt-replies", e))?;
    Ok(Outcome::new(n_writers >= 2 && contended_mid_record)
        .label_if(contended_mid_record, "lock-contended-mid-record")
        .label_if(!mgmt.is_empty(), "mgmt-replies-interleaved")
        .label_if(w.saw_write_pending, "write-pending")
        .label_if(w.short_writes > 0, "short-writes")
        .label_if(c.vectored, "vectored")
        .label_if(reader_cancelled, "read-abandoned")
        .label_if(closed, "closed-at-end")
        .label_if(lazy, "writers-created-lazily")
        .label_if(completed.iter().any(|c| c.3.len() == 65535), "65535-byte-record")
        .label_if(c.writers.iter().any(|w| w.clone_of.is_some()), "cloned-writer"))
}

fn wop() -> BoxedStrategy<WOp> {
    prop_oneof![
        8 => prop_oneof![2 => Just(0u32), 2 => Just(1), 2 => Just(7), 2 => Just(8), 2 => Just(9), 2 => Just(300), 1 => Just(65535), 1 => Just(65536), 1 => Just(70000), 6 => 1u32..=40, 3 => 1u32..=3000].prop_map(WOp::Write),
        1 => Just(WOp::Flush),
        1 => (prop_oneof![1u32..=40, 1u32..=3000, Just(65535u32)], any::<u8>()).prop_map(|(l, g)| WOp::WriteGrowing(l, g)),
        1 => (prop_oneof![1u32..=40, 1u32..=3000, Just(65535u32), Just(70000u32)], any::<u8>()).prop_map(|(l, g)| WOp::WriteVectored(l, g)),
    ]
    .boxed()
}

pub fn case_strategy() -> BoxedStrategy<Case> {
    (
        traffic::req_id(),
        proptest::collection::vec((any::<bool>(), prop::option::weighted(0.3, any::<u8>()), proptest::collection::vec(wop(), 1..6)), 1..=3),
        proptest::collection::vec(conn::mgmt_noise(40), 0..3),
        proptest::collection::vec(prop_oneof![1 => Just(0u16), 4 => 1u16..=16], 0..5),
        proptest::collection::vec(any::<u8>(), 1..12),
        any::<bool>(),
        prop_oneof![1 => conn::write_script(), 3 => proptest::collection::vec(prop_oneof![4 => prop_oneof![1u16..=9, 1u16..=40].prop_map(WStep::Accept), 3 => Just(WStep::Pending), 1 => Just(WStep::Accept(u16::MAX))], 1..6).prop_map(|mut v| { if !v.iter().any(|s| matches!(s, WStep::Accept(_))) { v.push(WStep::Accept(3)); } v })],
        any::<bool>(),
    )
        .prop_map(|(id, ws, mgmt, reads, order, spurious, write_script, vectored)| Case {
            cancel_after: if order.len() % 3 == 0 { Some((order[0] % 3) as u8) } else { None },
            close_at_end: order.len() % 2 == 0,
            id,
            writers: ws.into_iter().map(|(stderr, clone_of, ops)| WriterSpec { stderr, clone_of, ops }).collect(),
            mgmt,
            reads,
            order,
            spurious,
            write_script,
            vectored,
        })
        .boxed()
}

pub fn property() -> Property {
    Property {
        id: "C10",
        level: "exploration",
        assumptions: vec![
            "writers are polled directly (no executor): each has its own waker and is re-polled with the same buffer until its write completes, as the AsyncWrite contract requires; an unwoken writer is only polled when the case asks for spurious polls",
            "every write's first payload byte identifies (writer, call), so each record on the log maps back to exactly one write",
            "the transport accepts any 1..n bytes per call (vectored or first-slice-only) or reports Pending (self-waking)",
        ],
        subs: vec![prop_sub(
            "writers",
            "1..3 StreamWriters (stdout, stderr, clones) with queues of writes (0,1,7,8,9,300,65535,65536,70000,... bytes) and flushes, polled in a generated order, plus the request's own poll_read flushing management replies through the same lock; transports splitting writes anywhere (inside the header, at the header/payload seam, inside padding) or Pending; the log must decode after every step, and at the end every accepted write is exactly one record of the right type/id with exactly its bytes, padding rule, per-writer order; non-trivial = >=2 writers and a writer was blocked on the lock while the log ended mid-record; distinct = hash of the case",
            300_000,
            6_000_000,
            |_| case_strategy(),
            test,
        )],
    }
}
