//! C01 — request preamble decoding is exact under any record segmentation and chunking.

use proptest::prelude::*;
use serde::{Deserialize, Serialize};

use fastcgi_server::parser::request;

use crate::engine::*;
use crate::gen::{self, Blob, Chunking};
use crate::model::{self, PreResult};
use crate::syncdrv::{self, check_request, run_request};
use crate::traffic::{self, Noise, Phase, PreambleSpec};
use crate::wire::{self, Rec};
use crate::{vensure, vfail};

#[derive(Clone, Debug, Serialize, Deserialize)]
pub enum BufPick {
    /// documented minimum (longest pair + 13) plus this slack
    Tight(u8),
    /// at least this size
    AtLeast(u32),
}

#[derive(Clone, Debug, Serialize, Deserialize)]
pub struct Case {
    pub pre: PreambleSpec,
    pub noise: Vec<(u16, Noise)>,
    pub trailing: Blob,
    pub bufs: Vec<BufPick>,
    pub chunkings: Vec<Chunking>,
    pub max_conns: u32,
}

pub struct Built {
    pub recs: Vec<Rec>,
    pub wire: Vec<u8>,
    pub pre_end: usize,
    pub need: usize,
    pub pb: traffic::ParamsBuilt,
    pub noise_count: usize,
}

pub fn build(c: &Case) -> Built {
    let (recs, pb) = c.pre.build();
    let n_before = recs.len();
    // gap 0 = before BeginRequest (idle); gaps 1..=n-1 = Params phase; gap n = after the preamble
    // (not used: noise after the terminator would belong to the stream phase).
    let noise: Vec<(u16, Noise)> = c.noise.clone();
    let last_gap = n_before - 1; // keep the terminator last
    let spliced = traffic::splice_noise_bounded(recs, &noise, c.pre.id, last_gap, |g| if g == 0 { Phase::Idle } else { Phase::Params });
    let noise_count = spliced.len() - n_before;
    let mut wire = wire::encode_all(&spliced);
    let pre_end = wire.len();
    wire.extend_from_slice(&c.trailing.bytes());
    let longest = c.pre.params.longest_pair().max(c.noise.iter().map(|(_, n)| n.longest_pair()).max().unwrap_or(0));
    Built { recs: spliced, wire, pre_end, need: longest + 13, pb, noise_count }
}

pub fn buf_size(pick: &BufPick, need: usize) -> usize {
    match pick {
        BufPick::Tight(d) => need + *d as usize,
        BufPick::AtLeast(b) => need.max(*b as usize),
    }
}

fn test(c: &Case) -> TestResult {
    let b = build(c);
    let m = model::preamble_model(&b.recs, c.max_conns as usize);
    let PreResult::Done { req: mreq, recs_used } = &m.result else {
        vfail!("harness-inconsistent", "generator produced traffic the model does not consider a complete preamble: {:?}", m.result);
    };
    vensure!(*recs_used == b.recs.len(), "harness-inconsistent", "model finished after {recs_used} of {} records", b.recs.len());
    // generator-side cross-check of the environment (last value wins, names folded)
    {
        let mut env = std::collections::BTreeMap::new();
        for p in &c.pre.params.pairs {
            env.insert(model::lossy_upper(&p.name.bytes()), p.value.bytes());
        }
        vensure!(env == mreq.env, "harness-inconsistent", "model environment disagrees with the generated pair list");
    }
    let mut max_calls = 0;
    for pick in &c.bufs {
        let bsz = buf_size(pick, b.need);
        let cfg = syncdrv::config(bsz, c.max_conns as usize);
        for ch in &c.chunkings {
            let ctx = format!("[buffer_size {bsz}, chunking {ch:?}]");
            let run = run_request(request::Parser::new(&cfg), &b.wire, 0, ch).map_err(|f| Fail::new(f.sig, format!("{ctx} {}", f.msg)))?;
            max_calls = max_calls.max(run.feeding_calls);
            if !run.done {
                vfail!("c01-not-done", "{ctx} parser not done although the complete preamble ({} bytes) was fed", b.pre_end);
            }
            vensure!(run.fed >= b.pre_end, "c01-done-early", "{ctx} parser reported done after {} bytes, preamble ends at {}", run.fed, b.pre_end);
            vensure!(run.fed_before_done_call < b.pre_end, "c01-done-late", "{ctx} parser only reported done in a call after the one that supplied the last preamble byte ({} >= {})", run.fed_before_done_call, b.pre_end);
            // stickiness of done
            let mut p = run.parser;
            {
                let y = p.parse(0);
                vensure!(y.done && y.output.is_empty(), "c01-done-not-sticky", "{ctx} parse(0) after done: done={} output {} bytes", y.done, y.output.len());
            }
            let (req, leftover) = match p.into_request() {
                Ok(x) => x,
                Err(e) => vfail!("c01-error", "{ctx} well-formed preamble rejected: {e:?}"),
            };
            check_request(&req, mreq).map_err(|f| Fail::new(f.sig, format!("{ctx} {}", f.msg)))?;
            vensure!(leftover[..] == b.wire[b.pre_end..run.fed], "c01-leftover", "{ctx} leftover is {} bytes {:02x?}, expected the {} bytes fed after the preamble", leftover.len(), &leftover[..leftover.len().min(16)], run.fed - b.pre_end);
            let replies = wire::decode_replies(&run.output).map_err(|e| Fail::new("c01-output-malformed", format!("{ctx} {e}")))?;
            model::match_replies(&m.replies, &replies).map_err(|e| Fail::new("c01-replies", format!("{ctx} {e}")))?;
        }
    }
    let pairs = &c.pre.params.pairs;
    let names: Vec<Vec<u8>> = pairs.iter().map(|p| p.name.bytes()).collect();
    let dup = {
        let mut f: Vec<String> = names.iter().map(|n| model::lossy_upper(n)).collect();
        let n = f.len();
        f.sort();
        f.dedup();
        f.len() < n
    };
    Ok(Outcome::new(b.pb.crossing_pairs >= 1 && max_calls >= 2)
        .label_if(b.pb.cut_in_prefix, "cut-inside-length-prefix")
        .label_if(b.pb.over_three, "pair-over->=3-records")
        .label_if(pairs.iter().any(|p| p.long_n || p.long_v || p.name.len() >= 128 || p.value.len() >= 128), "4-byte-length")
        .label_if(pairs.iter().any(|p| p.body_len() > 65535), "pair>65535")
        .label_if(dup, "dup/case-variant")
        .label_if(names.iter().any(|n| std::str::from_utf8(n).is_err()), "non-utf8-name")
        .label_if(b.noise_count > 0, "interleaved-noise")
        .label_if(c.chunkings.iter().any(|c| matches!(c, Chunking::One)), "1-byte-reads")
        .label_if(pairs.is_empty(), "no-pairs"))
}

pub fn case_strategy(big: bool) -> BoxedStrategy<Case> {
    let max_len = 5000;
    let pre = traffic::preamble_spec(12, max_len);
    // rare huge pair (> one record)
    let pre = if big {
        (pre, prop::option::weighted(0.04, (60_000u32..140_000, any::<u32>(), any::<u16>())))
            .prop_map(|(mut p, huge)| {
                if let Some((len, seed, at)) = huge {
                    let pos = gen::idx(at, p.params.pairs.len() + 1);
                    p.params.pairs.insert(pos, traffic::PairSpec { name: Blob::lit(b"HTTP_X_HUGE"), value: Blob::Gen { len, seed }, long_n: false, long_v: false });
                }
                p
            })
            .boxed()
    } else {
        pre
    };
    let bufs = proptest::collection::vec(
        prop_oneof![
            3 => (0u8..=8).prop_map(BufPick::Tight),
            3 => prop_oneof![Just(24u32), Just(32), Just(64), Just(256), Just(8192), Just(131072)].prop_map(BufPick::AtLeast),
        ],
        2,
    );
    (
        pre,
        proptest::collection::vec((any::<u16>(), traffic::noise(40)), 0..4),
        proptest::collection::vec(any::<u8>(), 0..40).prop_map(|v| Blob::Lit(wire::Hex(v))),
        bufs,
        (gen::chunking(), gen::chunking(), gen::chunking()),
        prop_oneof![Just(1u32), Just(16), 1u32..100_000],
    )
        .prop_map(|(pre, noise, trailing, bufs, (c1, c2, c3), max_conns)| Case { pre, noise, trailing, bufs, chunkings: vec![c1, c2, c3], max_conns })
        .boxed()
}

pub fn property() -> Property {
    Property {
        id: "C01",
        level: "exploration",
        assumptions: vec![
            "oracle = record-level preamble model (harness/src/model.rs) over an independently encoded wire image",
            "String::from_utf8_lossy + to_ascii_uppercase is the reference for 'lossily decoded, ASCII-uppercased'",
            "buffer sizes respect the documented bound: longest name+value (incl. GetValues pairs) + 13",
        ],
        subs: vec![prop_sub(
            "preamble",
            "generated preambles (ids, roles, flag bytes, 0..12 pairs with interned/mixed-case/non-UTF-8/empty/duplicate names, lengths around 127/128, rare pairs > 65535) x Params segmentations (one record, every k bytes, random cuts, cuts aimed at length prefixes) x padding 0..255 x interleaved GetValues/unknown/foreign records x 2 buffer sizes x 3 chunkings; every run must equal the record-level model (id, role, flags, env by three spellings, leftover bytes, replies); non-trivial = >=1 pair crosses a Params record boundary and the wire is fed in >=2 calls; distinct = hash of the case",
            80_000,
            2_000_000,
            |_| case_strategy(true),
            test,
        )],
    }
}
