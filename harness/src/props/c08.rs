//! C08 — the server never waits for client input while it owes a reply.

use proptest::prelude::*;

use crate::aio::IoFault;
use crate::conn::{self, Built, ConnCase, ConnModel, RunResult};
use crate::engine::*;
use crate::model;
use crate::wire;
use crate::{vensure, vfail};

/// Invariant (1): whenever the task is suspended waiting for client input, the replies owed for
/// all complete records handed out so far are on the log.
pub fn check_parks(b: &Built, m: &ConnModel, r: &RunResult) -> Result<usize, Fail> {
    let w = r.world.lock().unwrap();
    let mut checked = 0;
    let mut last = (usize::MAX, usize::MAX);
    // A suspension point is the end of a task poll that returned Pending after a read found
    // nothing (and no write was refused since): only then is the task "suspended waiting for
    // further input". A read that finds nothing in the middle of a poll which goes on to process
    // and answer what it already has (a speculative read-ahead), or in the poll in which the task
    // finishes (a lingering-close drain), is not one.
    for &(log_len, read_pos) in w.suspensions.iter() {
        if (log_len, read_pos) == last {
            continue;
        }
        last = (log_len, read_pos);
        // complete records within the bytes handed out
        let k = b.offs.partition_point(|&o| o <= read_pos).saturating_sub(1);
        let owed: Vec<_> = m.e1.iter().filter(|e| e.cause < k).cloned().collect();
        let (recs, _) = wire::decode_log(&w.log[..log_len]).map_err(|e| Fail::new("conn-log-malformed", e))?;
        let real: Vec<u16> = m.reqs.iter().map(|q| q.id).collect();
        let mut got = Vec::new();
        for rec in &recs {
            match wire::classify_out(rec).map_err(|e| Fail::new("conn-log-malformed", e))? {
                rp @ (wire::Reply::Values { .. } | wire::Reply::Unknown { .. }) => got.push(rp),
                rp @ wire::Reply::End { id, .. } if !real.contains(&id) => got.push(rp),
                _ => {},
            }
        }
        let covered = model::match_replies_prefix(&m.e1, &got).map_err(|e| Fail::new("conn-mgmt-replies", e))?;
        let have = model::mandatory(&m.e1[..covered]);
        let need = model::mandatory(&owed);
        if have < need {
            let missing = owed.iter().filter(|e| !matches!(e.kind, model::ExpKind::OptionalEmptyValues)).nth(have).map(|e| e.cause);
            vfail!(
                "c08-owed-at-park",
                "the task waits for client input (after {read_pos} client bytes = {k} complete records, {log_len} bytes written) while {} reply/replies are owed; first unanswered client record: #{:?} (type {:?})",
                need - have, missing, missing.map(|i| b.recs[i].ty)
            );
        }
        checked += 1;
    }
    Ok(checked)
}

fn test(c: &ConnCase) -> TestResult {
    let b = conn::build(c);
    let m = conn::conn_model(c, &b)?;
    let r = conn::run_conn(c, &b, IoFault::None, |_, _| None)?;
    if std::env::var_os("VERIF_DEBUG").is_some() {
        conn::dump(&b, &r);
    }
    // (1) before (2): the park invariant names the unflushed/unprocessed record precisely
    let parks = check_parks(&b, &m, &r)?;
    // (2) no deadlock, and the rest of the connection model
    let v = conn::check_clean_run(c, &b, &m, &r)?;
    let w = r.world.lock().unwrap();
    let waited = c.reqs.iter().any(|q| q.wait_mgmt) && !b.queries.is_empty();
    // a query shares a release with neighbouring records, or sits inside a request's body
    let mid_body = b.queries.iter().any(|&q| b.spans.iter().any(|&(_, pe, be, _)| q >= pe && q < be));
    let with_neighbours = b.queries.iter().any(|&q| q > 0 || b.recs.len() > 1);
    vensure!(v.served >= 1, "harness-inconsistent", "nothing served");
    if std::env::var_os("VERIF_DEBUG").is_some() {
        eprintln!("waited={waited} mid_body={mid_body} with_neighbours={with_neighbours} parks={parks} raw parks={:?}", w.suspensions);
    }
    Ok(Outcome::new(waited && (mid_body || with_neighbours) && parks >= 1)
        .label_if(mid_body, "query-inside-body")
        .label_if(b.queries.iter().any(|&q| b.spans.iter().any(|&(s, pe, _, _)| q >= s && q < pe)), "query-before-or-inside-preamble")
        .label_if(b.queries.iter().any(|&q| b.spans.iter().any(|&(_, _, be, ae)| q >= be && q < ae)), "query-right-after-request")
        .label_if(b.queries.iter().any(|&q| q >= b.spans.last().map_or(0, |s| s.3)), "query-after-last-request")
        .label_if(w.saw_write_pending, "write-pending")
        .label_if(v.served >= 2, "connection-reused"))
}

pub fn property() -> Property {
    Property {
        id: "C08",
        level: "exploration",
        assumptions: vec![
            "closed-loop peer: sends whole records (delivered in arbitrary pieces by the reader script), and after every management query (GetValues with a non-empty body, unknown-type record) withholds everything further until the reply is on the byte log; request i+1 only after EndRequest i",
            "liveness is checked as safety: 'task suspended, nobody will wake it, peer still waiting for output' is decided by the executor (no timeouts)",
            "the suspension points are the reader's parks (a read that found no data): there the replies owed for all complete records already handed out must be on the log",
        ],
        subs: vec![prop_sub(
            "closed_loop",
            "C07 connections in which the peer waits for the reply to every management query before sending on; queries before the first request, between preamble records, inside bodies (handler blocked in read / fill_buf / writeable), right after a request's last record (same transport read as its end), after the last request; all handler scripts, reader/writer scripts; non-trivial = the peer actually waited on a query that has neighbouring records and the task parked at least once; distinct = hash of the case",
            80_000,
            2_000_000,
            |_| conn::conn_case(3, false, prop::bool::weighted(0.85).boxed()),
            test,
        ),
        prop_sub(
            "two_tasks",
            "the C10 harness (request reader on one task, 1..3 StreamWriters on others, generated poll order, pending/short writes) with management records in the reader's input: whenever the reader parks waiting for the client, the owed replies must already be on the log even if a writer task held the output lock mid-record, and a reader blocked on the lock must be woken when it is released; non-trivial as in C10; distinct = hash of the case",
            150_000,
            3_000_000,
            |_| crate::props::c10::case_strategy(),
            crate::props::c10::test,
        )],
    }
}
