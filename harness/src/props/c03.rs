//! C03 — parsers are total and chunking-invariant on arbitrary, hostile input.

use std::collections::BTreeMap;

use proptest::prelude::*;
use serde::{Deserialize, Serialize};

use fastcgi_server::parser::{request, stream};
use fastcgi_server::Config;

use crate::engine::*;
use crate::gen::{self, idx, Blob, Chunking};
use crate::syncdrv::{self, err_kind, rt, ErrKind};
use crate::traffic::{self, BodySpec, Noise, Phase, PreambleSpec};
use crate::wire::{self, Hex, Rec};
use crate::{vensure, vfail};

// ---------------------------------------------------------------------------------------------
// case description

#[derive(Clone, Debug, Serialize, Deserialize)]
pub enum Base {
    /// uniformly random bytes
    Random(Blob),
    /// records with valid-looking headers but arbitrary types / ids / lengths
    RandomRecords(Vec<RawRec>),
    /// valid traffic: preamble (+ noise), body, optionally the start of another request
    Traffic { pre: PreambleSpec, pre_noise: Vec<(u16, Noise)>, body: BodySpec, next: Option<PreambleSpec> },
}

#[derive(Clone, Debug, Serialize, Deserialize)]
pub struct RawRec {
    pub version: u8,
    pub ty: u8,
    pub id: u16,
    /// announced content length
    pub len: u16,
    /// bytes actually present (may be shorter than announced only for the last record)
    pub body: Blob,
    pub pad: u8,
}

#[derive(Clone, Debug, Serialize, Deserialize)]
pub enum Mutation {
    /// xor one byte anywhere
    Flip { at: u16, xor: u8 },
    /// overwrite one header field of the record picked by fraction (0 version, 1 type, 2 id hi, 3 id lo, 4 len hi, 5 len lo, 6 padding)
    Header { rec: u16, field: u8, val: u8 },
    /// overwrite bytes anywhere (e.g. a length prefix announcing up to 2^31-1 bytes)
    Overwrite { at: u16, bytes: Hex },
    Insert { at: u16, bytes: Hex },
    Truncate { at: u16 },
    /// overwrite the request id of the picked record (None = the request's own id)
    SetId { rec: u16, id: u16 },
    /// insert a whole record at a record boundary; `own_id` uses the request's id
    InsertRec { gap: u16, own_id: bool, raw: RawRec },
    /// overwrite the first bytes of the picked record's payload (e.g. a name-value header
    /// announcing up to 2^31-1 bytes for both lengths)
    PayloadPrefix { rec: u16, bytes: Hex },
}

#[derive(Clone, Debug, Serialize, Deserialize)]
pub struct Case {
    pub base: Base,
    pub muts: Vec<Mutation>,
    /// buffer_size
    pub buf: u32,
    pub max_conns: u32,
    pub chunkings: Vec<Chunking>,
    pub dest_cap: u16,
    /// request-parser call indices (fractions of 64) at which conversions are probed on clones
    pub probes: Vec<u8>,
}

pub fn assemble(c: &Case) -> (Vec<u8>, usize) {
    let mut offsets: Vec<usize> = Vec::new();
    let mut wire_bytes = match &c.base {
        Base::Random(b) => b.bytes(),
        Base::RandomRecords(rs) => {
            let mut out = Vec::new();
            for r in rs {
                offsets.push(out.len());
                out.extend_from_slice(&[r.version, r.ty, (r.id >> 8) as u8, r.id as u8, (r.len >> 8) as u8, r.len as u8, r.pad, 0]);
                out.extend_from_slice(&r.body.bytes());
                out.extend(std::iter::repeat(0x99).take(r.pad as usize));
            }
            out
        },
        Base::Traffic { pre, pre_noise, body, next } => {
            let (recs, _) = pre.build();
            let last_gap = recs.len() - 1;
            let mut recs: Vec<Rec> = traffic::splice_noise_bounded(recs, pre_noise, pre.id, last_gap, |g| if g == 0 { Phase::Idle } else { Phase::Params });
            recs.extend(body.build(pre.id));
            if let Some(n) = next {
                recs.extend(n.build().0);
            }
            let mut off = 0;
            for r in &recs {
                offsets.push(off);
                off += r.wire_len();
            }
            wire::encode_all(&recs)
        },
    };
    let nrec = offsets.len();
    let own = match &c.base {
        Base::Traffic { pre, .. } => pre.id,
        _ => 1,
    };
    for m in &c.muts {
        match m {
            Mutation::Flip { at, xor } => {
                if !wire_bytes.is_empty() {
                    let i = idx(*at, wire_bytes.len());
                    wire_bytes[i] ^= xor | 1;
                }
            },
            Mutation::Header { rec, field, val } => {
                if nrec > 0 {
                    let o = offsets[idx(*rec, nrec)] + (*field % 7) as usize;
                    if o < wire_bytes.len() {
                        wire_bytes[o] = *val;
                    }
                }
            },
            Mutation::Overwrite { at, bytes } => {
                if !wire_bytes.is_empty() {
                    let i = idx(*at, wire_bytes.len());
                    for (k, b) in bytes.0.iter().enumerate() {
                        if i + k < wire_bytes.len() {
                            wire_bytes[i + k] = *b;
                        }
                    }
                }
            },
            Mutation::Insert { at, bytes } => {
                let i = idx(*at, wire_bytes.len() + 1);
                wire_bytes.splice(i..i, bytes.0.iter().copied());
            },
            Mutation::Truncate { at } => {
                let i = idx(*at, wire_bytes.len() + 1);
                wire_bytes.truncate(i);
            },
            Mutation::SetId { rec, id } => {
                if nrec > 0 {
                    let o = offsets[idx(*rec, nrec)];
                    if o + 4 <= wire_bytes.len() {
                        wire_bytes[o + 2] = (*id >> 8) as u8;
                        wire_bytes[o + 3] = *id as u8;
                    }
                }
            },
            Mutation::PayloadPrefix { rec, bytes } => {
                if nrec > 0 {
                    let o = offsets[idx(*rec, nrec)];
                    if o + 8 <= wire_bytes.len() {
                        let len = ((wire_bytes[o + 4] as usize) << 8) | wire_bytes[o + 5] as usize;
                        for (k, b) in bytes.0.iter().enumerate().take(len) {
                            if o + 8 + k < wire_bytes.len() {
                                wire_bytes[o + 8 + k] = *b;
                            }
                        }
                    }
                }
            },
            Mutation::InsertRec { gap, own_id, raw } => {
                // only meaningful while offsets are still valid (no earlier insertion moved them):
                // apply at the original boundary if it still lies within the wire
                let o = if nrec == 0 { 0 } else { let g = idx(*gap, nrec + 1); if g == nrec { wire_bytes.len() } else { offsets[g] } };
                if o <= wire_bytes.len() {
                    let id = if *own_id { own } else { raw.id };
                    let mut bytes = vec![raw.version, raw.ty, (id >> 8) as u8, id as u8, (raw.len >> 8) as u8, raw.len as u8, raw.pad, 0];
                    bytes.extend_from_slice(&raw.body.bytes());
                    bytes.extend(std::iter::repeat(0x77).take(raw.pad as usize));
                    wire_bytes.splice(o..o, bytes);
                }
            },
        }
    }
    (wire_bytes, nrec)
}

// ---------------------------------------------------------------------------------------------
// running the request parser to an outcome

#[derive(Clone, Debug, PartialEq, Eq)]
pub enum ReqRes {
    Ok { id: u16, role: u16, flags: u8, env: BTreeMap<String, Vec<u8>>, consumed: usize },
    Err(ErrKind),
    NotDone,
}

pub struct ReqOutcome<'c> {
    pub res: ReqRes,
    pub output: Vec<u8>,
    /// present when the outcome is Ok: parser ready for conversion, bytes fed
    pub parser: Option<(request::Parser<'c>, usize)>,
    pub calls: usize,
}

fn probe_request_clone(p: &request::Parser, done: bool) -> Result<(), Fail> {
    if done {
        return Ok(());
    }
    match p.clone().into_request() {
        Err(fastcgi_server::parser::Error::Interrupted) => {},
        other => vfail!("c03-conversion", "into_request() on an unfinished parser returned {:?}, documented Err(Interrupted)", other.map(|(r, l)| (r.request_id, l.len())).map_err(|e| err_kind(&e))),
    }
    match p.clone().into_stream_parser() {
        Err(fastcgi_server::parser::Error::Interrupted) => Ok(()),
        other => vfail!("c03-conversion", "into_stream_parser() on an unfinished parser returned {:?}", other.map(|_| "Ok").map_err(|e| err_kind(&e))),
    }
}

pub fn run_req<'c>(cfg: &'c Config, wire_bytes: &[u8], ch: &Chunking, probes: &[u8], zero_calls: bool) -> Result<ReqOutcome<'c>, Fail> {
    let mut p = request::Parser::new(cfg);
    let mut fed = 0usize;
    let mut output = Vec::new();
    let mut calls = 0usize;
    let mut done = false;
    while fed < wire_bytes.len() {
        if probes.contains(&((calls % 64) as u8)) {
            probe_request_clone(&p, false)?;
        }
        if zero_calls && calls % 3 == 1 {
            // parse(0) in between must be harmless
            let y = p.parse(0);
            output.extend_from_slice(y.output);
            if y.done {
                done = true;
                break;
            }
        }
        let buf = p.input_buffer();
        vensure!(!buf.is_empty(), "req-empty-input-buffer", "request parser not done but offers an empty input buffer after {fed} bytes");
        // long inputs (records near the 16-bit limit) scale the read sizes to keep a case cheap
        let n = buf.len().min(ch.size(calls).saturating_mul(1 + wire_bytes.len() / 3000)).min(wire_bytes.len() - fed);
        buf[..n].copy_from_slice(&wire_bytes[fed..fed + n]);
        fed += n;
        let y = p.parse(n);
        calls += 1;
        vensure!(calls < 20_000_000, "req-livelock", "call budget exceeded");
        output.extend_from_slice(y.output);
        if y.done {
            done = true;
            break;
        }
    }
    if !done {
        probe_request_clone(&p, false)?;
        // parse(0) at the end must not change anything
        let y = p.parse(0);
        vensure!(!y.done && y.output.is_empty(), "c03-parse0", "parse(0) without new input changed the outcome (done={}, {} output bytes)", y.done, y.output.len());
        return Ok(ReqOutcome { res: ReqRes::NotDone, output, parser: None, calls });
    }
    // stickiness: parse(0) and parse(k) again => still done, no output, same result
    let first = p.clone().into_request();
    {
        let y = p.parse(0);
        vensure!(y.done && y.output.is_empty(), "c03-not-sticky", "parse(0) after done: done={} output {} bytes", y.done, y.output.len());
    }
    let mut extra = 0usize;
    {
        let buf = p.input_buffer();
        let k = buf.len().min(wire_bytes.len() - fed).min(5);
        buf[..k].copy_from_slice(&wire_bytes[fed..fed + k]);
        let y = p.parse(k);
        vensure!(y.done && y.output.is_empty(), "c03-not-sticky", "parse({k}) after done: done={} output {} bytes", y.done, y.output.len());
        extra = k.max(extra);
    }
    let second = p.clone().into_request();
    match (&first, &second) {
        (Ok((r1, l1)), Ok((r2, l2))) => {
            vensure!(r1 == r2, "c03-not-sticky", "request changed by calls after done");
            vensure!(l2.len() == l1.len() + extra && l2[..l1.len()] == l1[..] && l2[l1.len()..] == wire_bytes[fed..fed + extra], "c03-not-sticky", "leftover after done: {} then {} bytes (fed {extra} more)", l1.len(), l2.len());
        },
        (Err(e1), Err(e2)) => vensure!(err_kind(e1) == err_kind(e2), "c03-not-sticky", "fatal error changed from {:?} to {:?}", err_kind(e1), err_kind(e2)),
        _ => vfail!("c03-not-sticky", "result flipped between Ok and Err after done"),
    }
    match first {
        Err(e) => {
            let k = err_kind(&e);
            vensure!(k != ErrKind::Paniced, "panic", "parser reported Error::Paniced");
            vensure!(k != ErrKind::Interrupted, "c03-conversion", "done parser returned Interrupted");
            Ok(ReqOutcome { res: ReqRes::Err(k), output, parser: None, calls })
        },
        Ok((req, left)) => {
            let env = req.env_iter().map(|(k, v)| (k.as_ref().to_string(), v.to_vec())).collect();
            vensure!(left.len() <= fed, "c03-leftover", "leftover longer than input");
            vensure!(left[..] == wire_bytes[fed - left.len()..fed], "c03-leftover", "leftover is not the unread suffix of the bytes fed");
            let res = ReqRes::Ok { id: req.request_id.get(), role: u16::from(req.role), flags: req.flags.bits(), env, consumed: fed - left.len() };
            // hand back a parser in the state right after `done` (without the extra bytes)
            Ok(ReqOutcome { res, output, parser: Some((p, fed + extra)), calls })
        },
    }
}

// ---------------------------------------------------------------------------------------------
// running the stream parser to an outcome

#[derive(Clone, Debug, PartialEq, Eq)]
pub enum Terminal {
    Quiescent,
    Error(ErrKind),
    /// the parser holds a unit larger than its buffer and cannot take more input
    Stuck,
}

#[derive(Clone, Debug, PartialEq, Eq)]
pub struct StreamOutcome {
    pub delivered: BTreeMap<u8, Vec<u8>>,
    pub output: Vec<u8>,
    pub terminal: Terminal,
    /// into_input() on a clone at the end
    pub remainder: Result<Vec<u8>, ErrKind>,
    pub records_seen_end: bool,
}

#[derive(Clone, Copy, Debug)]
pub enum Policy {
    Buffered,
    Direct(usize),
    /// buffered reading, but the caller selects the next stream (or none) as soon as this many
    /// wire bytes have been fed - in the middle of whatever the parser is doing. Delivered data
    /// then legitimately depends on the chunking; the bytes emitted toward the client do not.
    EarlySwitch(usize),
}

pub fn run_stream(mut p: stream::Parser, wire_bytes: &[u8], mut pos: usize, ch: &Chunking, policy: Policy) -> Result<StreamOutcome, Fail> {
    let role = u16::from(p.request.role);
    let order = wire::role_streams(role).to_vec();
    let mut delivered: BTreeMap<u8, Vec<u8>> = BTreeMap::new();
    let mut output = Vec::new();
    let mut calls = 0usize;
    // derived from the chunking and the policy, so that the runs compared with each other differ
    let drain_mode = format!("{ch:?}{policy:?}").bytes().fold(wire_bytes.len(), |a, b| a.wrapping_mul(31).wrapping_add(usize::from(b))) % 6;
    let mut idle_rounds = 0;
    let mut last_idle_rem: Option<Result<Vec<u8>, ErrKind>> = None;
    let mut switched = false;
    let terminal;
    loop {
        calls += 1;
        vensure!(calls < 20_000_000, "stream-livelock", "call budget exceeded");
        if let Policy::EarlySwitch(at) = policy {
            if !switched && pos >= at {
                switched = true;
                if let Some(s) = p.active_stream().map(u8::from) {
                    take_buffered(&mut p, &mut delivered);
                    let next = order.iter().position(|&x| x == s).and_then(|i| order.get(i + 1)).copied();
                    vensure!(p.set_stream(next.map(rt)).is_ok(), "stream-advance-rejected", "early switch from {s} to {next:?} rejected");
                }
            }
        }
        // make room
        if p.input_buffer().is_empty() {
            take_buffered(&mut p, &mut delivered);
            p.compress();
        }
        let boundary = p.is_record_boundary();
        match p.clone().into_input() {
            Ok(_) => vensure!(boundary, "c03-conversion", "into_input() succeeded although is_record_boundary() is false"),
            Err(fastcgi_server::parser::Error::Interrupted) => vensure!(!boundary, "c03-conversion", "into_input() returned Interrupted at a record boundary"),
            Err(e) => vfail!("c03-conversion", "into_input() returned {:?}", err_kind(&e)),
        }
        let n = p.input_buffer().len().min(ch.size(calls).saturating_mul(1 + wire_bytes.len() / 3000)).min(wire_bytes.len() - pos);
        let room = !p.input_buffer().is_empty();
        p.input_buffer()[..n].copy_from_slice(&wire_bytes[pos..pos + n]);
        pos += n;
        let active = p.active_stream().map(u8::from);
        let out_before = p.output_buffer().len();
        let res = match policy {
            Policy::Buffered | Policy::EarlySwitch(_) => p.parse(n, None),
            Policy::Direct(cap) => {
                take_buffered(&mut p, &mut delivered);
                let mut d = vec![0u8; cap];
                let r = p.parse(n, Some(&mut d[..]));
                if let (Ok(st), Some(s)) = (&r, active) {
                    vensure!(st.stream <= cap, "stream-count", "Status.stream {} > dest capacity {cap}", st.stream);
                    delivered.entry(s).or_default().extend_from_slice(&d[..st.stream]);
                }
                r
            },
        };
        match res {
            Err(e) => {
                let k = err_kind(&e);
                vensure!(k != ErrKind::Paniced, "panic", "parser reported Error::Paniced");
                take_buffered(&mut p, &mut delivered);
                output.extend_from_slice(p.output_buffer());
                let olen = p.output_buffer().len();
                // sticky: same error again, no further output
                for extra in [0usize, 1] {
                    let k2 = {
                        let b = p.input_buffer();
                        let m = extra.min(b.len()).min(wire_bytes.len() - pos);
                        b[..m].copy_from_slice(&wire_bytes[pos..pos + m]);
                        pos += m;
                        match p.parse(m, None) {
                            Err(e2) => err_kind(&e2),
                            Ok(_) => vfail!("c03-not-sticky", "parse succeeded after failing with {k:?}"),
                        }
                    };
                    // "reported again by every later call": also with a caller buffer, empty or not
                    if p.stream_buffer().is_empty() {
                        for cap in [0usize, 3] {
                            let mut d = vec![0u8; cap];
                            match p.parse(0, Some(&mut d[..])) {
                                Err(e2) => vensure!(err_kind(&e2) == k, "c03-not-sticky", "parse into a {cap}-byte buffer failed with {:?} after failing with {k:?}", err_kind(&e2)),
                                Ok(_) => vfail!("c03-not-sticky", "parse into a {cap}-byte caller buffer succeeded after failing with {k:?}"),
                            }
                        }
                    }
                    vensure!(k2 == k, "c03-not-sticky", "parse failed with {k2:?} after failing with {k:?}");
                    vensure!(p.output_buffer().len() == olen, "c03-not-sticky", "output_buffer grew after a fatal error");
                }
                terminal = Terminal::Error(k);
                break;
            },
            Ok(st) => {
                vensure!(p.output_buffer().len() == out_before + st.output, "stream-output-count", "Status.output {} but output_buffer grew by {}", st.output, p.output_buffer().len() - out_before);
                if matches!(policy, Policy::Buffered | Policy::EarlySwitch(_)) {
                    take_buffered(&mut p, &mut delivered);
                    p.compress();
                }
                // how the caller drains the replies is part of "however the caller drives": all of
                // it, all but one byte, a few bytes per call, or nothing until the very end
                let ol = p.output_buffer().len();
                let take = match drain_mode {
                    0 | 1 => ol,
                    2 => ol.saturating_sub(1),
                    3 => ol.min(7),
                    4 => ol.min(16 + calls % 3),
                    _ => 0,
                };
                output.extend_from_slice(&p.output_buffer()[..take]);
                let rest = p.output_buffer()[take..].to_vec();
                p.consume_output(take);
                vensure!(p.output_buffer() == &rest[..], "stream-output-consume", "consume_output({take}) of {ol} pending bytes left wrong bytes in output_buffer");
                let mut progressed = n > 0 || st.stream > 0 || st.output > 0;
                if st.stream_end {
                    if let Some(s) = active {
                        // advance: next stream of the role, or None after the last
                        take_buffered(&mut p, &mut delivered);
                        let next = order.iter().position(|&x| x == s).and_then(|i| order.get(i + 1)).copied();
                        vensure!(p.set_stream(next.map(rt)).is_ok(), "stream-advance-rejected", "advancing from {s} to {next:?} rejected");
                        progressed = true;
                    }
                }
                if !progressed {
                    // A call may consume buffered records without anything to show for it (a
                    // parser is free to handle one silent record per call): compare what is
                    // left unread before deciding that nothing moves any more.
                    let rem = p.clone().into_input().map_err(|e| err_kind(&e));
                    if last_idle_rem.as_ref() != Some(&rem) {
                        last_idle_rem = Some(rem);
                        idle_rounds = 0;
                        continue;
                    }
                }
                if !progressed {
                    idle_rounds += 1;
                    if pos >= wire_bytes.len() && idle_rounds >= 2 {
                        terminal = Terminal::Quiescent;
                        break;
                    }
                    if pos < wire_bytes.len() && !room && idle_rounds >= 3 {
                        terminal = Terminal::Stuck;
                        break;
                    }
                } else {
                    idle_rounds = 0;
                }
            },
        }
    }
    if !matches!(terminal, Terminal::Error(_)) {
        // whatever the caller had not drained yet (the error path has already collected it)
        output.extend_from_slice(p.output_buffer());
    }
    let remainder = p.clone().into_input().map_err(|e| err_kind(&e));
    Ok(StreamOutcome { delivered, output, terminal, remainder, records_seen_end: pos >= wire_bytes.len() })
}

fn take_buffered(p: &mut stream::Parser, delivered: &mut BTreeMap<u8, Vec<u8>>) {
    let b = p.stream_buffer();
    if !b.is_empty() {
        if let Some(s) = p.active_stream().map(u8::from) {
            delivered.entry(s).or_default().extend_from_slice(b);
        }
        let l = b.len();
        p.consume_stream(l);
    }
}

// ---------------------------------------------------------------------------------------------
// the relation

pub fn test(c: &Case) -> TestResult {
    let (wire_bytes, _nrec) = assemble(c);
    let cfg = syncdrv::config(c.buf as usize, c.max_conns as usize);
    let mut reference: Option<(ReqRes, Vec<u8>)> = None;
    let mut stream_ref: Option<StreamOutcome> = None;
    let mut early_ref: Option<StreamOutcome> = None;
    let mut label_outcome = "";
    let mut max_calls = 0;
    let mut stream_phase = false;
    for (ci, ch) in c.chunkings.iter().enumerate() {
        let ctx = format!("[chunking #{ci} {ch:?}]");
        let out = run_req(&cfg, &wire_bytes, ch, &c.probes, ci % 2 == 1).map_err(|f| Fail::new(f.sig, format!("{ctx} {}", f.msg)))?;
        max_calls = max_calls.max(out.calls);
        match &reference {
            None => reference = Some((out.res.clone(), out.output.clone())),
            Some((r, o)) => {
                vensure!(*r == out.res, "c03-chunking-dependent", "{ctx} request parser outcome {} differs from the outcome under {:?}: {}", short(&out.res), c.chunkings[0], short(r));
                vensure!(*o == out.output, "c03-chunking-dependent", "{ctx} request parser emitted {} output bytes, {} under {:?}", out.output.len(), o.len(), c.chunkings[0]);
            },
        }
        label_outcome = match &out.res {
            ReqRes::Ok { .. } => "req-ok",
            ReqRes::NotDone => "req-not-done",
            ReqRes::Err(ErrKind::StuckOnInput) => "req-stuck-on-input",
            ReqRes::Err(ErrKind::UnknownVersion(_)) => "req-unknown-version",
            ReqRes::Err(ErrKind::InvalidRequestLen(_)) => "req-invalid-len",
            ReqRes::Err(ErrKind::NullRequest) => "req-null-request",
            ReqRes::Err(_) => "req-other-error",
        };
        if let Some((p, _fed_with_extra)) = out.parser {
            // `p` has seen `extra` more bytes after done; rebuild a clean parser for the hand-off
            // by re-running without the stickiness probe bytes.
            drop(p);
            stream_phase = true;
            let run = syncdrv::run_request(request::Parser::new(&cfg), &wire_bytes, 0, ch).map_err(|f| Fail::new(f.sig, format!("{ctx} {}", f.msg)))?;
            vensure!(run.done, "c03-chunking-dependent", "{ctx} second identical run of the request parser did not finish");
            let fed = run.fed;
            let sp = match run.parser.into_stream_parser() {
                Ok(sp) => sp,
                Err(e) => vfail!("c03-chunking-dependent", "{ctx} into_stream_parser failed after into_request succeeded: {:?}", err_kind(&e)),
            };
            // early stream switch at a byte position inside the body: only what goes to the
            // client (replies) and the terminal state must be chunking-independent
            {
                let at = fed.max(ReqConsumed::of(&reference)) + (c.dest_cap as usize % 97);
                let so = run_stream(sp.clone(), &wire_bytes, fed, ch, Policy::EarlySwitch(at)).map_err(|f| Fail::new(f.sig, format!("{ctx} early switch at byte {at}: {}", f.msg)))?;
                match &early_ref {
                    None => early_ref = Some(so),
                    Some(r) => {
                        vensure!(r.output == so.output, "c03-chunking-dependent", "{ctx} early stream switch at byte {at}: {} bytes emitted toward the client, {} under {:?}", so.output.len(), r.output.len(), c.chunkings[0]);
                        vensure!(std::mem::discriminant(&r.terminal) == std::mem::discriminant(&so.terminal), "c03-chunking-dependent", "{ctx} early stream switch at byte {at}: ended with {:?}, under {:?} with {:?}", so.terminal, c.chunkings[0], r.terminal);
                    },
                }
            }
            for policy in [Policy::Buffered, Policy::Direct((c.dest_cap as usize).max(1))] {
                let so = run_stream(sp.clone(), &wire_bytes, fed, ch, policy).map_err(|f| Fail::new(f.sig, format!("{ctx} {policy:?} {}", f.msg)))?;
                match &stream_ref {
                    None => {
                        stream_ref = Some(so);
                    },
                    Some(r) => {
                        vensure!(r.terminal == so.terminal, "c03-chunking-dependent", "{ctx} {policy:?}: stream parser ended with {:?}, reference run with {:?}", so.terminal, r.terminal);
                        vensure!(r.output == so.output, "c03-chunking-dependent", "{ctx} {policy:?}: {} output bytes, reference {}", so.output.len(), r.output.len());
                        let failing = !matches!(so.terminal, Terminal::Quiescent);
                        for s in r.delivered.keys().chain(so.delivered.keys()) {
                            let empty = Vec::new();
                            let a = r.delivered.get(s).unwrap_or(&empty);
                            let b = so.delivered.get(s).unwrap_or(&empty);
                            if failing && matches!(policy, Policy::Direct(_)) {
                                vensure!(b.len() <= a.len() && a[..b.len()] == b[..], "c03-stream-prefix", "{ctx} {policy:?}: bytes of stream {s} reported before the failure are not a prefix of the stream's content");
                            } else {
                                vensure!(a == b, "c03-chunking-dependent", "{ctx} {policy:?}: stream {s} delivered {} bytes, reference {} (first difference at {:?})", b.len(), a.len(), a.iter().zip(b.iter()).position(|(x, y)| x != y));
                            }
                        }
                        // "on success ... the unread remainder": comparable only when both runs end at
                        // a record boundary; an input that stops in the middle of a record has no
                        // success outcome, and how much of the partial record a parser has already
                        // taken in is its own business
                        if !failing && r.remainder.is_ok() && so.remainder.is_ok() && r.records_seen_end && so.records_seen_end {
                            let (a, b) = (r.remainder.as_ref().unwrap(), so.remainder.as_ref().unwrap());
                            // either both hold the same unread suffix, or one of them has stopped
                            // in front of a trailing incomplete record that the other has begun
                            let whole_records = |v: &Vec<u8>| wire::decode_log(v).map(|(_, used)| used == v.len()).unwrap_or(false);
                            vensure!(a == b || !(whole_records(a) && whole_records(b)), "c03-chunking-dependent", "{ctx} {policy:?}: unread remainder differs from the reference run ({} vs {} bytes, both whole records)", b.len(), a.len());
                        }
                    },
                }
            }
        }
    }
    let _ = &early_ref;
    let term_label = match stream_ref.as_ref().map(|s| &s.terminal) {
        Some(Terminal::Quiescent) => "stream-quiescent",
        Some(Terminal::Stuck) => "stream-stuck",
        Some(Terminal::Error(ErrKind::AbortRequest)) => "stream-abort",
        Some(Terminal::Error(ErrKind::UnknownVersion(_))) => "stream-unknown-version",
        Some(Terminal::Error(_)) => "stream-other-error",
        None => "no-stream-phase",
    };
    let multi_record = wire_bytes.len() > 24 && max_calls >= 2;
    Ok(Outcome::new(multi_record && (stream_phase || !matches!(reference, Some((ReqRes::Err(ErrKind::UnknownVersion(_)), _)))))
        .label(label_outcome)
        .label(term_label)
        .label_if(matches!(c.base, Base::Random(_)), "base-random")
        .label_if(matches!(c.base, Base::RandomRecords(_)), "base-random-records")
        .label_if(matches!(c.base, Base::Traffic { .. }), "base-traffic"))
}

struct ReqConsumed;
impl ReqConsumed {
    /// byte offset at which the preamble ended (so that the switch point is the same for every chunking)
    fn of(r: &Option<(ReqRes, Vec<u8>)>) -> usize {
        match r {
            Some((ReqRes::Ok { consumed, .. }, _)) => *consumed,
            _ => 0,
        }
    }
}

fn short(r: &ReqRes) -> String {
    match r {
        ReqRes::Ok { id, role, flags, env, consumed } => format!("Ok{{id {id}, role {role}, flags {flags:#x}, {} vars, {consumed} bytes consumed}}", env.len()),
        other => format!("{other:?}"),
    }
}

// ---------------------------------------------------------------------------------------------
// strategies

fn raw_rec() -> BoxedStrategy<RawRec> {
    (
        prop_oneof![9 => Just(1u8), 1 => any::<u8>()],
        prop_oneof![6 => 1u8..=11, 2 => any::<u8>()],
        prop_oneof![3 => Just(0u16), 3 => Just(1u16), 1 => any::<u16>()],
        prop_oneof![3 => 0u16..=16, 2 => Just(8u16), 2 => 16u16..=300, 1 => any::<u16>()],
        prop_oneof![3 => Just(0u8), 2 => 0u8..=8, 1 => any::<u8>()],
        any::<u32>(),
        prop::bool::weighted(0.1),
    )
        .prop_map(|(version, ty, id, len, pad, seed, short)| {
            let present = if short { len / 2 } else { len } as u32;
            RawRec { version, ty, id, len, body: Blob::Gen { len: present, seed }, pad }
        })
        .boxed()
}

fn mutation() -> BoxedStrategy<Mutation> {
    prop_oneof![
        2 => (any::<u16>(), any::<u8>()).prop_map(|(at, xor)| Mutation::Flip { at, xor }),
        5 => (any::<u16>(), 0u8..7, prop_oneof![Just(0u8), Just(1), Just(2), Just(8), Just(9), Just(11), Just(12), Just(0xff), any::<u8>()]).prop_map(|(rec, field, val)| Mutation::Header { rec, field, val }),
        2 => (any::<u16>(), prop_oneof![
                Just(vec![0xff, 0xff, 0xff, 0xff]), Just(vec![0x80, 0, 0, 0]), Just(vec![0xff, 0xff, 0xff, 0xff, 0xff, 0xff, 0xff, 0xff]),
                Just(vec![0x80, 0x00, 0x01, 0x00]), proptest::collection::vec(any::<u8>(), 1..9)
            ]).prop_map(|(at, bytes)| Mutation::Overwrite { at, bytes: Hex(bytes) }),
        1 => (any::<u16>(), proptest::collection::vec(any::<u8>(), 1..20)).prop_map(|(at, bytes)| Mutation::Insert { at, bytes: Hex(bytes) }),
        2 => any::<u16>().prop_map(|at| Mutation::Truncate { at }),
        1 => (any::<u16>(), prop_oneof![Just(0u16), Just(1), any::<u16>()]).prop_map(|(rec, id)| Mutation::SetId { rec, id }),
        3 => (any::<u16>(), prop_oneof![
                Just(vec![0xffu8; 8]), Just(vec![0xff, 0xff, 0xff, 0xfc, 0xff, 0xff, 0xff, 0xfc]), Just(vec![0xff, 0xff, 0xff, 0xff, 0xff, 0xff, 0xff, 0xf9]),
                Just(vec![0xff, 0xff, 0xff, 0xff, 0x00]), Just(vec![0x00, 0xff, 0xff, 0xff, 0xff]), Just(vec![0x80, 0, 0, 0, 0x80, 0, 0, 0]),
                Just(vec![0xff, 0xff, 0xff, 0xff, 0x80, 0x00, 0x00, 0x08]), (any::<u32>(), any::<u32>()).prop_map(|(a, b)| { let mut v = (a | 0x8000_0000).to_be_bytes().to_vec(); v.extend((b | 0x8000_0000).to_be_bytes()); v }),
            ]).prop_map(|(rec, bytes)| Mutation::PayloadPrefix { rec, bytes: Hex(bytes) }),
        3 => (any::<u16>(), prop::bool::weighted(0.7), raw_rec(), prop_oneof![3 => Just(2u8), 2 => Just(1u8), 1 => Just(9u8), 1 => Just(5u8), 1 => any::<u8>()])
            .prop_map(|(gap, own_id, mut raw, ty)| { raw.ty = ty; raw.version = 1; Mutation::InsertRec { gap, own_id, raw } }),
    ]
    .boxed()
}

fn base() -> BoxedStrategy<Base> {
    let traffic_base = (1u16..=3).prop_flat_map(|role| {
        (
            traffic::preamble_spec(6, 300).prop_map(move |mut p| {
                p.role = role;
                p
            }),
            proptest::collection::vec((any::<u16>(), traffic::noise(40)), 0..3),
            traffic::body_spec(role, 3, 40, false),
            prop::option::weighted(0.3, traffic::preamble_spec(3, 60)),
        )
            .prop_map(|(pre, pre_noise, body, next)| Base::Traffic { pre, pre_noise, body, next })
    });
    prop_oneof![
        1 => (0u32..400, any::<u32>()).prop_map(|(len, seed)| Base::Random(Blob::Gen { len, seed })),
        3 => proptest::collection::vec(raw_rec(), 0..8).prop_map(Base::RandomRecords),
        6 => traffic_base,
    ]
    .boxed()
}

pub fn case_strategy() -> BoxedStrategy<Case> {
    (
        base(),
        proptest::collection::vec(mutation(), 0..4),
        prop_oneof![4 => Just(0u32), 4 => Just(64u32), 4 => Just(512u32), 6 => Just(8192u32), 2 => 24u32..2000, 1 => Just(70000u32), 1 => Just(140000u32)],
        prop_oneof![Just(1u32), 1u32..10000],
        (gen::chunking(), gen::chunking()),
        1u16..=700,
        proptest::collection::vec(0u8..64, 0..3),
    )
        .prop_map(|(base, muts, buf, max_conns, (c1, c2), dest_cap, probes)| Case { base, muts, buf, max_conns, chunkings: vec![Chunking::Max, Chunking::One, c1, c2], dest_cap, probes })
        .boxed()
}

pub fn property() -> Property {
    Property {
        id: "C03",
        level: "exploration",
        assumptions: vec![
            "metamorphic oracle: the same bytes and configuration under 4 chunkings (everything-at-once, 1-byte, 2 generated) and 2 stream-reading policies must give the same outcome; no reference model of malformed traffic is needed",
            "a failing stream parse() returns no Status, so bytes it had copied into a caller dest are unreported: only the prefix relation is demanded there; replies left in output_buffer() are counted as emitted",
            "debug assertions and overflow checks are compiled in; every call runs under catch_unwind; a per-case CPU-time watchdog reports a non-returning call",
            "callers respect documented preconditions (parse(n) with n <= input_buffer().len(), dest only with an empty stream_buffer, set_stream only with input-stream types, into_request_parser only with consumed output)",
        ],
        subs: vec![prop_sub(
            "hostile",
            "random bytes, random records with valid-looking headers, and valid traffic (preamble+noise+body+next request) with 0..3 mutations (header field overwrite incl. version/type/length, byte flips, length prefixes up to 2^31-1, insertions, truncation) x buffer sizes 24..8192 x 4 chunkings x {buffered, direct} stream reading, parse(0) calls interleaved, conversions probed on clones at generated call indices, repeated calls after done/fatal; non-trivial = more than one record's worth of input processed in >=2 calls and the run got past the first header; distinct = hash of the case",
            60_000,
            1_500_000,
            |_| case_strategy(),
            test,
        )],
    }
}
