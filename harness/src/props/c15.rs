//! C15 — the variable-length integer codec is a bijection on 0..2^31-1 (finite: decided by
//! enumeration in the thorough tier).

use std::io::ErrorKind;

use fastcgi_server::protocol::varint::VarInt;
use serde::{Deserialize, Serialize};

use crate::engine::*;
use crate::{vensure, vfail};

const MAX: u32 = (1 << 31) - 1;

/// Independent reference encoding.
fn ref_encode(v: u32) -> ([u8; 4], usize) {
    if v < 128 {
        ([v as u8, 0, 0, 0], 1)
    } else {
        ([0x80 | (v >> 24) as u8, (v >> 16) as u8, (v >> 8) as u8, v as u8], 4)
    }
}

fn is_boundary(v: u32) -> bool {
    v == 0 || v == MAX || (v.wrapping_add(1)).is_power_of_two() || v.is_power_of_two()
        || v.wrapping_sub(1).is_power_of_two()
}

/// A reader that hands out its bytes in pieces of the given sizes (then one byte at a time): the
/// bytes are all "present", only not in one `read` call.
struct Pieces<'a> {
    data: &'a [u8],
    sizes: [u8; 2],
    call: usize,
}

impl std::io::Read for Pieces<'_> {
    fn read(&mut self, buf: &mut [u8]) -> std::io::Result<usize> {
        let want = self.sizes.get(self.call).copied().unwrap_or(1).max(1) as usize;
        self.call += 1;
        let n = want.min(buf.len()).min(self.data.len());
        buf[..n].copy_from_slice(&self.data[..n]);
        self.data = &self.data[n..];
        Ok(n)
    }
}

/// value -> write -> read, exact bytes, exact consumption.
fn test_value(v: &u32) -> TestResult {
    let v = *v;
    let vi = match VarInt::try_from(v) {
        Ok(x) => x,
        Err(e) => vfail!("c15-tryfrom", "VarInt::try_from({v}) failed: {e}"),
    };
    vensure!(u32::from(vi) == v, "c15-tryfrom", "u32::from(VarInt::try_from({v})) = {}", u32::from(vi));
    let mut buf = [0xEEu8; 8];
    let written;
    {
        let mut w = &mut buf[..];
        match vi.write(&mut w) {
            Ok(n) => {
                written = n;
                vensure!(8 - w.len() == n, "c15-write-count", "write({v}) returned {n} but advanced the writer by {}", 8 - w.len());
            },
            Err(e) => vfail!("c15-write", "write({v}) failed: {e}"),
        }
    }
    let (exp, elen) = ref_encode(v);
    vensure!(written == elen, "c15-length-rule", "write({v}) used {written} bytes, specification says {elen}");
    vensure!(buf[..written] == exp[..elen], "c15-bytes", "write({v}) produced {:02x?}, expected {:02x?}", &buf[..written], &exp[..elen]);
    vensure!(buf[written..].iter().all(|&b| b == 0xEE), "c15-write-count", "write({v}) touched bytes beyond the reported length");
    // Decode with trailing garbage present: must consume exactly the encoding.
    let mut r = &buf[..];
    match VarInt::read(&mut r) {
        Ok(back) => {
            vensure!(u32::from(back) == v, "c15-roundtrip", "read(write({v})) = {}", u32::from(back));
            vensure!(8 - r.len() == written, "c15-consumed", "read consumed {} bytes of a {written}-byte encoding of {v}", 8 - r.len());
        },
        Err(e) => vfail!("c15-read", "read(write({v})) failed: {e}"),
    }
    // Decode from exactly the encoded bytes.
    let mut r = &buf[..written];
    match VarInt::read(&mut r) {
        Ok(back) => vensure!(u32::from(back) == v && r.is_empty(), "c15-roundtrip", "exact-length read of {v} gave {} with {} bytes left", u32::from(back), r.len()),
        Err(e) => vfail!("c15-read", "exact-length read of encoded {v} failed: {e}"),
    }
    // Decode through readers that deliver the (present) bytes in several calls.
    if written == 4 {
        for sizes in [[1u8, 1], [2, 2], [3, 1], [1, 3]] {
            let mut r = Pieces { data: &buf[..], sizes, call: 0 };
            match VarInt::read(&mut r) {
                Ok(back) => {
                    vensure!(u32::from(back) == v, "c15-roundtrip", "read of {v} through a reader delivering {sizes:?}-byte pieces gave {}", u32::from(back));
                    vensure!(8 - r.data.len() == 4, "c15-consumed", "read of {v} through a piecewise reader consumed {} bytes", 8 - r.data.len());
                },
                Err(e) => vfail!("c15-read", "read of encoded {v} failed ({e}) when the reader delivered its bytes in pieces of {sizes:?}: all four bytes are present"),
            }
        }
    }
    Ok(Outcome::new(v >= 128 || is_boundary(v)))
}

/// u32 -> TryFrom accepts exactly 0..2^31-1.
fn test_tryfrom(v: &u32) -> TestResult {
    let v = *v;
    let r = VarInt::try_from(v);
    let want_ok = v <= MAX;
    match r {
        Ok(x) => {
            vensure!(want_ok, "c15-range", "VarInt::try_from({v}u32) succeeded for an out-of-range value");
            vensure!(u32::from(x) == v, "c15-tryfrom", "VarInt::try_from({v}) holds {}", u32::from(x));
        },
        Err(_) => vensure!(!want_ok, "c15-range", "VarInt::try_from({v}u32) failed for an in-range value"),
    }
    let ru = VarInt::try_from(v as usize);
    vensure!(ru.is_ok() == want_ok, "c15-range", "VarInt::try_from({v}usize).is_ok() = {}", ru.is_ok());
    if let Ok(x) = ru {
        vensure!(u32::from(x) == v, "c15-tryfrom", "VarInt::try_from({v}usize) holds {}", u32::from(x));
        vensure!(usize::try_from(x).ok() == Some(v as usize), "c15-tryfrom", "usize::try_from(VarInt({v})) wrong");
    }
    // integers beyond 32 bits whose low half looks harmless
    #[cfg(target_pointer_width = "64")]
    for k in [1usize, 2, 0x7fff_ffff, 0xffff_ffff] {
        let big = (v as usize).wrapping_add(k << 32);
        vensure!(VarInt::try_from(big).is_err(), "c15-range", "VarInt::try_from({big}usize) succeeded for an out-of-range value (low 32 bits {v})");
    }
    Ok(Outcome::new(true))
}

/// An encoding (possibly truncated): `len` bytes of `bytes` are present.
#[derive(Clone, Debug, Serialize, Deserialize)]
struct Enc {
    bytes: [u8; 4],
    len: u8,
}

fn test_decode(e: &Enc) -> TestResult {
    let data = &e.bytes[..e.len as usize];
    // Append nothing: the reader sees exactly `len` bytes.
    let mut r = data;
    let res = VarInt::read(&mut r);
    let first = data.first().copied();
    let need = match first {
        None => 1,
        Some(b) if b & 0x80 == 0 => 1,
        Some(_) => 4,
    };
    if data.len() >= need {
        let exp = if need == 1 {
            data[0] as u32
        } else {
            ((data[0] as u32 & 0x7f) << 24) | ((data[1] as u32) << 16) | ((data[2] as u32) << 8) | data[3] as u32
        };
        match res {
            Ok(v) => {
                vensure!(u32::from(v) == exp, "c15-decode", "read({data:02x?}) = {}, expected {exp}", u32::from(v));
                vensure!(data.len() - r.len() == need, "c15-consumed", "read({data:02x?}) consumed {} bytes, expected {need}", data.len() - r.len());
            },
            Err(er) => vfail!("c15-decode", "read({data:02x?}) failed ({er}) although the {need} announced bytes are present"),
        }
    } else {
        let mut pr = Pieces { data, sizes: [1, 1], call: 0 };
        match VarInt::read(&mut pr) {
            Ok(v) => vfail!("c15-truncated", "piecewise read({data:02x?}) returned {} although only {} of {need} bytes are present", u32::from(v), data.len()),
            Err(er) => vensure!(er.kind() == ErrorKind::UnexpectedEof, "c15-truncated", "piecewise read({data:02x?}) failed with {:?}, expected UnexpectedEof", er.kind()),
        }
        match res {
            Ok(v) => vfail!("c15-truncated", "read({data:02x?}) returned {} although only {} of {need} bytes are present", u32::from(v), data.len()),
            Err(er) => vensure!(er.kind() == ErrorKind::UnexpectedEof, "c15-truncated", "read({data:02x?}) failed with {:?}, expected UnexpectedEof", er.kind()),
        }
    }
    Ok(Outcome::new(true))
}

fn shard_range(total: u64, shard: usize, n: usize) -> (u64, u64) {
    let per = total.div_ceil(n as u64);
    let lo = per * shard as u64;
    (lo.min(total), (lo + per).min(total))
}

pub fn property() -> Property {
    let values: Box<dyn Sub> = Box::new(EnumSub::<u32> {
        name: "values",
        rule: "both tiers: every value 0..=2^31-1 (try_from, write, read with trailing bytes, exact-length read) against an independent encoder. Elements are distinct by construction; non-trivial = four-byte form or within 1 of a power of two",
        exhaustive: Box::new(|_| true),
        guard_each: true,
        test: Box::new(test_value),
        body: Box::new(|tier, shard, n, sink| {
            let _ = tier;
            let (lo, hi) = shard_range(1u64 << 31, shard, n);
            for v in lo..hi {
                if !sink.check(v as u32) {
                    return;
                }
            }
        }),
    });

    let tryfrom: Box<dyn Sub> = Box::new(EnumSub::<u32> {
        name: "tryfrom_u32",
        rule: "both tiers: all 2^32 u32 inputs (and the same values as usize) to TryFrom: succeeds iff value <= 2^31-1 and preserves the value",
        exhaustive: Box::new(|_| true),
        guard_each: true,
        test: Box::new(test_tryfrom),
        body: Box::new(|_tier, shard, n, sink| match Tier::Thorough {
            Tier::Thorough => {
                let (lo, hi) = shard_range(1u64 << 32, shard, n);
                for v in lo..hi {
                    if !sink.check(v as u32) {
                        return;
                    }
                }
            },
            Tier::Quick => {
                if shard == 0 {
                    let c = 1u64 << 31;
                    for v in (0..65536u64).chain(c - 65536..c + 65536).chain((1u64 << 32) - 65536..(1u64 << 32)) {
                        if !sink.check(v as u32) {
                            return;
                        }
                    }
                }
                let (lo, hi) = shard_range(1u64 << 25, shard, n);
                for i in lo..hi {
                    if !sink.check(((i << 7) | 77) as u32) {
                        return;
                    }
                }
            },
        }),
    });

    let decode: Box<dyn Sub> = Box::new(EnumSub::<Enc> {
        name: "decode",
        rule: "all 256 one-byte inputs, the empty input, every 1-, 2- and 3-byte truncation of four-byte encodings (must fail with UnexpectedEof), and four-byte encodings incl. non-canonical small values (all 2^31, both tiers): decoded value = big-endian with top bit cleared, exactly 1 or 4 bytes consumed",
        exhaustive: Box::new(|_| true),
        guard_each: true,
        test: Box::new(test_decode),
        body: Box::new(|_tier, shard, n, sink| {
            let tier = Tier::Thorough; // the whole domain is cheap enough for both tiers
            if shard == 0 {
                if !sink.check(Enc { bytes: [0; 4], len: 0 }) {
                    return;
                }
                for b in 0..=255u8 {
                    if !sink.check(Enc { bytes: [b, 0, 0, 0], len: 1 }) {
                        return;
                    }
                }
                for a in 0x80..=0xffu8 {
                    for b in 0..=255u8 {
                        if !sink.check(Enc { bytes: [a, b, 0, 0], len: 2 }) {
                            return;
                        }
                    }
                }
            }
            // three-byte truncations: 128*65536, split by shard
            let (lo, hi) = shard_range(128 * 65536, shard, n);
            let step3 = if tier == Tier::Thorough { 1 } else { 7 };
            let mut i = lo;
            while i < hi {
                let a = 0x80 | (i >> 16) as u8;
                if !sink.check(Enc { bytes: [a, (i >> 8) as u8, i as u8, 0], len: 3 }) {
                    return;
                }
                i += step3;
            }
            match tier {
                Tier::Thorough => {
                    let (lo, hi) = shard_range(1u64 << 31, shard, n);
                    for i in lo..hi {
                        let v = i as u32;
                        let bytes = [0x80 | (v >> 24) as u8, (v >> 16) as u8, (v >> 8) as u8, v as u8];
                        if !sink.check(Enc { bytes, len: 4 }) {
                            return;
                        }
                    }
                },
                Tier::Quick => {
                    let (lo, hi) = shard_range(1u64 << 26, shard, n);
                    for i in lo..hi {
                        let v = ((i << 5) | 11) as u32;
                        let bytes = [0x80 | (v >> 24) as u8, (v >> 16) as u8, (v >> 8) as u8, v as u8];
                        if !sink.check(Enc { bytes, len: 4 }) {
                            return;
                        }
                    }
                    if shard == 0 {
                        for a in [0x80u8, 0x81, 0xfe, 0xff] {
                            for low in 0..(1u32 << 16) {
                                for b in [0u8, 1, 0x7f, 0x80, 0xff] {
                                    if !sink.check(Enc { bytes: [a, b, (low >> 8) as u8, low as u8], len: 4 }) {
                                        return;
                                    }
                                }
                            }
                        }
                    }
                },
            }
        }),
    });

    Property {
        id: "C15",
        level: "exploration",
        assumptions: vec![
            "the oracle is an independently written encoder/decoder in the harness (wire-format rule from the FastCGI specification section 3.4)",
            "std::io::Read/Write for byte slices behave as documented",
        ],
        subs: vec![values, tryfrom, decode],
    }
}
