//! C20 — CGI response header writers emit exactly the documented grammar and byte count.

use fastcgi_server::cgi::response::{http_headers, simple_redirect, write_headers};
use proptest::prelude::*;
use serde::{Deserialize, Serialize};

use crate::engine::*;
use crate::wire::Hex;
use crate::{vensure, vfail};

#[derive(Clone, Debug, Serialize, Deserialize)]
pub struct Case {
    pub code: u16,
    pub headers: Vec<(Hex, Hex)>,
    pub location: String,
}

fn expected_headers(code: u16, headers: &[(Vec<u8>, Vec<u8>)]) -> Vec<u8> {
    let status = http::StatusCode::from_u16(code).expect("100..=999");
    let mut out = Vec::new();
    out.extend_from_slice(b"Status: ");
    out.extend_from_slice(format!("{code:03}").as_bytes());
    out.push(b' ');
    out.extend_from_slice(status.canonical_reason().unwrap_or("Custom").as_bytes());
    for (n, v) in headers {
        out.push(b'\n');
        out.extend_from_slice(n);
        out.extend_from_slice(b": ");
        out.extend_from_slice(v);
    }
    out.extend_from_slice(b"\n\n");
    out
}

/// Runs `f` against a Vec and against bounded slices of every capacity 0..=len.
fn check_writer(what: &str, expected: &[u8], f: &dyn Fn(&mut dyn std::io::Write) -> std::io::Result<usize>) -> Result<(), Fail> {
    let mut v: Vec<u8> = vec![0xAA, 0xBB];
    match f(&mut v) {
        Ok(n) => {
            vensure!(v[..2] == [0xAA, 0xBB], "c20-clobber", "{what}: existing bytes of the destination were modified");
            vensure!(v[2..] == *expected, "c20-grammar", "{what}: wrote {:?}, expected {:?}", String::from_utf8_lossy(&v[2..]), String::from_utf8_lossy(expected));
            vensure!(n == expected.len(), "c20-count", "{what}: returned {n}, wrote {} bytes", expected.len());
        },
        Err(e) => vfail!("c20-error", "{what}: writing into a Vec failed: {e}"),
    }
    for cap in 0..=expected.len() + 1 {
        let mut buf = vec![0x55u8; cap];
        let (res, written) = {
            let mut w: &mut [u8] = &mut buf[..];
            let r = f(&mut w);
            (r, cap - w.len())
        };
        vensure!(buf[..written] == expected[..written.min(expected.len())] && written <= expected.len(), "c20-grammar", "{what}: capacity {cap}: the {written} bytes written are not a prefix of the expected text");
        match res {
            Ok(n) => {
                vensure!(cap >= expected.len(), "c20-short-success", "{what}: reported success ({n} bytes) with a {cap}-byte destination, {} needed", expected.len());
                vensure!(n == expected.len() && written == expected.len(), "c20-count", "{what}: capacity {cap}: returned {n}, wrote {written}, expected {}", expected.len());
            },
            Err(_) => vensure!(cap < expected.len(), "c20-error", "{what}: failed with a {cap}-byte destination although {} bytes suffice", expected.len()),
        }
    }
    Ok(())
}

fn test(c: &Case) -> TestResult {
    let status = match http::StatusCode::from_u16(c.code) {
        Ok(s) => s,
        Err(_) => return Ok(Outcome::new(false).label("invalid-status")),
    };
    let headers: Vec<(Vec<u8>, Vec<u8>)> = c.headers.iter().map(|(n, v)| (n.0.clone(), v.0.clone())).collect();
    let exp = expected_headers(c.code, &headers);
    check_writer("write_headers", &exp, &|w| write_headers(w, status, headers.iter().map(|(n, v)| (&n[..], &v[..]))))?;
    // the header list may come from any IntoIterator: adaptors without an exact size hint, and a Vec
    {
        let mut v1: Vec<u8> = Vec::new();
        let r1 = write_headers(&mut v1, status, headers.iter().filter(|_| true).map(|(n, v)| (&n[..], &v[..])));
        vensure!(matches!(r1, Ok(n) if n == exp.len()) && v1 == exp, "c20-grammar", "write_headers with a filtered iterator wrote {:?}, expected {:?}", String::from_utf8_lossy(&v1), String::from_utf8_lossy(&exp));
        let mut idx = 0usize;
        let mut v2: Vec<u8> = Vec::new();
        let r2 = write_headers(&mut v2, status, std::iter::from_fn(|| { let x = headers.get(idx).map(|(n, v)| (&n[..], &v[..])); idx += 1; x }));
        vensure!(matches!(r2, Ok(n) if n == exp.len()) && v2 == exp, "c20-grammar", "write_headers with a from_fn iterator wrote {:?}, expected {:?}", String::from_utf8_lossy(&v2), String::from_utf8_lossy(&exp));
        let owned: Vec<(&[u8], &[u8])> = headers.iter().map(|(n, v)| (&n[..], &v[..])).collect();
        let mut v3: Vec<u8> = Vec::new();
        let r3 = write_headers(&mut v3, status, owned);
        vensure!(matches!(r3, Ok(n) if n == exp.len()) && v3 == exp, "c20-grammar", "write_headers with a Vec wrote {} bytes, expected {}", v3.len(), exp.len());
    }
    let exp_loc = [b"Location: ".as_slice(), c.location.as_bytes(), b"\n\n"].concat();
    check_writer("simple_redirect", &exp_loc, &|w| simple_redirect(w, &c.location))?;
    // http_headers: same output as write_headers over the response's header map
    let mut builder = http::Response::builder().status(status);
    let mut usable = 0;
    for (n, v) in &headers {
        if let (Ok(hn), Ok(hv)) = (http::header::HeaderName::from_bytes(n), http::header::HeaderValue::from_bytes(v)) {
            if hn.as_str() != "status" {
                builder = builder.header(hn, hv);
                usable += 1;
            }
        }
    }
    if let Ok(resp) = builder.body(()) {
        let list: Vec<(Vec<u8>, Vec<u8>)> = resp.headers().iter().map(|(n, v)| (n.as_str().as_bytes().to_vec(), v.as_bytes().to_vec())).collect();
        let exp_http = expected_headers(c.code, &list);
        check_writer("http_headers", &exp_http, &|w| http_headers(w, &resp))?;
    }
    Ok(Outcome::new(!headers.is_empty())
        .label_if(status.canonical_reason().is_none(), "custom-reason")
        .label_if(headers.iter().any(|(n, v)| n.is_empty() || v.is_empty()), "empty-name-or-value")
        .label_if(usable > 0, "http-response-headers"))
}

// ---------------------------------------------------------------------------------------------
// outputs whose total length sits on block-size boundaries

#[derive(Clone, Debug, Serialize, Deserialize)]
struct Sized {
    /// total number of output bytes
    total: u32,
    redirect: bool,
}

fn check_sized(what: &str, expected: &[u8], f: &dyn Fn(&mut dyn std::io::Write) -> std::io::Result<usize>) -> Result<(), Fail> {
    let mut v: Vec<u8> = Vec::new();
    match f(&mut v) {
        Ok(n) => vensure!(v == expected && n == expected.len(), "c20-grammar", "{what}: {} bytes written, {n} reported, expected {} (first difference at {:?})", v.len(), expected.len(), v.iter().zip(expected.iter()).position(|(a, b)| a != b)),
        Err(e) => vfail!("c20-error", "{what}: writing into a Vec failed: {e}"),
    }
    let len = expected.len();
    let mut caps: Vec<usize> = vec![0, 1, len / 2, len.saturating_sub(4097), len.saturating_sub(4096), len.saturating_sub(4095), len.saturating_sub(1), len, len + 1, len + 4096];
    caps.sort_unstable();
    caps.dedup();
    for cap in caps {
        let mut buf = vec![0x55u8; cap];
        let (res, written) = {
            let mut w: &mut [u8] = &mut buf[..];
            let r = f(&mut w);
            (r, cap - w.len())
        };
        vensure!(written <= len && buf[..written] == expected[..written], "c20-grammar", "{what}: capacity {cap}: the {written} bytes written are not a prefix of the expected text");
        match res {
            Ok(n) => vensure!(cap >= len && n == len && written == len, "c20-short-success", "{what}: capacity {cap}: reported success ({n} bytes, {written} written) but {len} bytes are needed"),
            Err(_) => vensure!(cap < len, "c20-error", "{what}: failed with a {cap}-byte destination although {len} bytes suffice"),
        }
    }
    Ok(())
}

fn test_sized(c: &Sized) -> TestResult {
    let total = c.total as usize;
    if c.redirect {
        let fixed = "Location: \n\n".len();
        let loc: String = (0..total - fixed).map(|i| (b'a' + (i % 26) as u8) as char).collect();
        let exp = [b"Location: ".as_slice(), loc.as_bytes(), b"\n\n"].concat();
        check_sized("simple_redirect", &exp, &|w| simple_redirect(w, &loc))?;
    } else {
        // Status: 200 OK + two headers, the second value padded to reach the total
        let h1: (Vec<u8>, Vec<u8>) = (b"Content-Type".to_vec(), b"text/plain".to_vec());
        let base = expected_headers(200, &[h1.clone(), (b"X-Pad".to_vec(), vec![])]).len();
        let pad: Vec<u8> = (0..total - base).map(|i| b'0' + (i % 10) as u8).collect();
        let headers = vec![h1, (b"X-Pad".to_vec(), pad)];
        let exp = expected_headers(200, &headers);
        check_sized("write_headers", &exp, &|w| write_headers(w, http::StatusCode::OK, headers.iter().map(|(n, v)| (&n[..], &v[..]))))?;
    }
    Ok(Outcome::new(true))
}

// ---------------------------------------------------------------------------------------------
// every status code x every length of one header (any fixed-size staging of the status line
// and the leading header has its boundary somewhere in this grid)

#[derive(Clone, Debug, Serialize, Deserialize)]
struct Lens {
    code: u16,
    /// name.len() + value.len() of the long header
    len: u16,
    /// number of short headers in front of it
    pos: u8,
    /// share of `len` that goes to the name, in quarters
    split: u8,
}

fn test_lens(c: &Lens) -> TestResult {
    let status = http::StatusCode::from_u16(c.code).expect("100..=999");
    let nlen = usize::from(c.len) * usize::from(c.split % 5) / 4;
    let name: Vec<u8> = (0..nlen).map(|i| b'A' + (i % 26) as u8).collect();
    let value: Vec<u8> = (0..usize::from(c.len) - nlen).map(|i| b'a' + (i % 26) as u8).collect();
    let mut headers: Vec<(Vec<u8>, Vec<u8>)> = (0..c.pos).map(|i| (vec![b'H', b'0' + i], vec![b'v'])).collect();
    headers.push((name, value));
    headers.push((b"X-Tail".to_vec(), b"t".to_vec()));
    let exp = expected_headers(c.code, &headers);
    let f = |w: &mut dyn std::io::Write| write_headers(w, status, headers.iter().map(|(n, v)| (&n[..], &v[..])));
    let mut v: Vec<u8> = Vec::new();
    match f(&mut v) {
        Ok(n) => vensure!(v == exp && n == exp.len(), "c20-grammar", "write_headers({}, long header {}+{} bytes at position {}): {} bytes written, {n} reported, expected {} (first difference at {:?})", c.code, nlen, usize::from(c.len) - nlen, c.pos, v.len(), exp.len(), v.iter().zip(exp.iter()).position(|(a, b)| a != b)),
        Err(e) => vfail!("c20-error", "write_headers({}, long header {}+{} bytes at position {}): writing into a Vec failed: {e}", c.code, nlen, usize::from(c.len) - nlen, c.pos),
    }
    let len = exp.len();
    for cap in [len - 1, len] {
        let mut buf = vec![0x55u8; cap];
        let (res, written) = {
            let mut w: &mut [u8] = &mut buf[..];
            let r = f(&mut w);
            (r, cap - w.len())
        };
        vensure!(written <= len && buf[..written] == exp[..written], "c20-grammar", "write_headers({}, header length {}): capacity {cap}: the {written} bytes written are not a prefix of the expected text", c.code, c.len);
        match res {
            Ok(n) => vensure!(cap >= len && n == len && written == len, "c20-short-success", "write_headers({}, header length {}): capacity {cap}: reported success ({n} bytes) but {len} bytes are needed", c.code, c.len),
            Err(_) => vensure!(cap < len, "c20-error", "write_headers({}, header length {}): failed with a {cap}-byte destination although {len} bytes suffice", c.code, c.len),
        }
    }
    Ok(Outcome::new(true).label_if(status.canonical_reason().is_none(), "custom-reason").label_if(c.pos > 0, "long-header-not-first"))
}

fn header_bytes(max: usize) -> BoxedStrategy<Vec<u8>> {
    prop_oneof![
        2 => "[A-Za-z][A-Za-z0-9-]{0,20}".prop_map(String::into_bytes),
        2 => proptest::collection::vec(any::<u8>().prop_map(|b| if b == b'\n' || b == b'\r' { b'_' } else { b }), 0..max),
        1 => Just(Vec::new()),
        1 => "[ -~]{0,60}".prop_map(String::into_bytes),
    ]
    .boxed()
}

fn header_list() -> BoxedStrategy<Vec<(Hex, Hex)>> {
    // names that merely resemble the reserved `Status` are ordinary headers
    let name = prop_oneof![
        8 => header_bytes(24),
        1 => prop_oneof![Just("Status-Reason"), Just("STATUSES"), Just("statusx"), Just("X-Status"), Just("Statu"), Just("Status "), Just(" Status"), Just("Status:"), Just("status-"), Just("StatusCode")].prop_map(|s| s.as_bytes().to_vec()),
    ];
    proptest::collection::vec((name, header_bytes(80)), 0..8)
        .prop_map(|v| {
            v.into_iter()
                .map(|(mut n, val)| {
                    if n.eq_ignore_ascii_case(b"status") {
                        n.push(b'x'); // the name `Status` is reserved by documentation
                    }
                    (Hex(n), Hex(val))
                })
                .collect()
        })
        .boxed()
}

pub fn property() -> Property {
    let all_codes: Box<dyn Sub> = Box::new(EnumSub::<Case> {
        name: "all_status_codes",
        rule: "every status code 100..=999 with three fixed header lists (none, one, three incl. empty name/value): status line with canonical or 'Custom' reason, header lines, blank line, exact byte count, and every destination capacity 0..=len+1 (fails iff too small, prefix written); distinct by construction",
        exhaustive: Box::new(|_| true),
        guard_each: true,
        test: Box::new(test),
        body: Box::new(|_t, shard, n, sink| {
            let lists: [Vec<(Hex, Hex)>; 3] = [
                vec![],
                vec![(Hex(b"Content-Type".to_vec()), Hex(b"text/plain".to_vec()))],
                vec![(Hex(vec![]), Hex(b"v".to_vec())), (Hex(b"X-Empty".to_vec()), Hex(vec![])), (Hex(vec![0xff, 0x00]), Hex(vec![0x80, b':', b' ']))],
            ];
            let mut k = 0usize;
            for code in 100..=999u16 {
                for l in &lists {
                    k += 1;
                    if k % n == shard && !sink.check(Case { code, headers: l.clone(), location: format!("/r/{code}") }) {
                        return;
                    }
                }
            }
        }),
    });
    Property {
        id: "C20",
        level: "exploration",
        assumptions: vec![
            "the reason phrase oracle is http::StatusCode::canonical_reason (a dependency, not the crate under test); everything else is assembled independently",
            "header names never equal the reserved name `Status`; names and values contain no CR/LF (documented preconditions)",
        ],
        subs: vec![
            all_codes,
            Box::new(EnumSub::<Sized> {
                name: "block_boundaries",
                rule: "outputs of write_headers and simple_redirect whose total length is 2^k-1, 2^k, 2^k+1 for k = 6..17 and multiples of 4096 / 8192 +-1: exact bytes and count into a Vec, and bounded destinations around len-4096 .. len+1; distinct by construction",
                exhaustive: Box::new(|_| true),
                guard_each: true,
                test: Box::new(test_sized),
                body: Box::new(|_t, shard, n, sink| {
                    let mut totals: Vec<u32> = Vec::new();
                    for k in 6..=17u32 {
                        totals.extend([(1 << k) - 1, 1 << k, (1 << k) + 1]);
                    }
                    for m in [3u32, 5, 6, 7, 9, 10, 15] {
                        totals.extend([m * 4096 - 1, m * 4096, m * 4096 + 1]);
                    }
                    totals.extend([100, 1000, 1500, 4000, 5000, 65535 + 80]);
                    let mut k = 0usize;
                    for t in totals {
                        for redirect in [false, true] {
                            k += 1;
                            if k % n == shard && !sink.check(Sized { total: t, redirect }) {
                                return;
                            }
                        }
                    }
                }),
            }),
            Box::new(EnumSub::<Lens> {
                name: "header_lengths",
                rule: "every status code 100..=999 x one header of every total length 0..=520 (thorough: 0..=2100) as first header, name/value split in quarters rotating with the length, followed by a short header; plus, for every 7th code, the same header behind one or two short headers: exact bytes and count into a Vec, success at capacity len, failure with a prefix at len-1; distinct by construction",
                exhaustive: Box::new(|_| true),
                guard_each: false,
                test: Box::new(test_lens),
                body: Box::new(|t, shard, n, sink| {
                    let max: u16 = if matches!(t, Tier::Thorough) { 2100 } else { 520 };
                    let mut k = 0usize;
                    for code in 100..=999u16 {
                        for len in 0..=max {
                            for pos in 0..3u8 {
                                if pos > 0 && code % 7 != 0 {
                                    continue;
                                }
                                k += 1;
                                if k % n == shard && !sink.check(Lens { code, len, pos, split: (len % 5) as u8 }) {
                                    return;
                                }
                            }
                        }
                    }
                }),
            }),
            prop_sub(
                "generated",
                "status codes 100..=999 x generated header lists (0..7 headers, empty names/values, arbitrary bytes without newlines) x location strings, for write_headers, simple_redirect and http_headers (via http::Response), against Vec and every bounded capacity; non-trivial = >=1 header; distinct = hash of the case",
                400_000,
                6_000_000,
                |_| boxed((100u16..=999, header_list(), "[ -~]{0,60}|\\PC{0,12}").prop_map(|(code, headers, location)| Case { code, headers, location })),
                test,
            ),
        ],
    }
}
