//! C19 — CGI variable names: equality, order, hash, interning agree and ignore ASCII case.

use std::borrow::{Borrow, Cow};
use std::cmp::Ordering;
use std::collections::hash_map::DefaultHasher;
use std::collections::{BTreeMap, HashMap};
use std::hash::{Hash, Hasher};

use fastcgi_server::cgi::{OwnedVarName, StaticVarName, VarName};
use proptest::prelude::*;
use serde::{Deserialize, Serialize};

use crate::engine::*;
use crate::gen::idx;
use crate::{vensure, vfail};

include!(concat!(env!("OUT_DIR"), "/interned.rs"));

#[derive(Clone, Debug, Serialize, Deserialize)]
pub enum Derive {
    Same,
    /// re-case ASCII letters by bit pattern
    Recase(u32),
    Upper,
    Lower,
    /// keep the first k characters (fraction)
    Truncate(u16),
    Append(String),
    Prepend(String),
    /// replace the character at the position (fraction) by this one
    Replace(u16, char),
    /// XOR the ASCII characters at `pos, pos+stride, ...` (`count` of them) with the same 7-bit
    /// delta: differences that a block-wise or word-wise comparison could cancel against each other
    XorAt { pos: u16, stride: u8, count: u8, delta: u8 },
    /// exchange the characters at two positions (fractions)
    Swap(u16, u16),
}

#[derive(Clone, Debug, Serialize, Deserialize)]
pub struct Case {
    pub base: String,
    pub derive: [Derive; 3],
    /// constructor used for each of the three names
    pub ctor: [u8; 3],
}

fn derive(base: &str, d: &Derive) -> String {
    match d {
        Derive::Same => base.to_string(),
        Derive::Recase(p) => base.chars().enumerate().map(|(i, c)| if (p >> (i % 32)) & 1 == 1 { c.to_ascii_lowercase() } else { c.to_ascii_uppercase() }).collect(),
        Derive::Upper => base.to_ascii_uppercase(),
        Derive::Lower => base.to_ascii_lowercase(),
        Derive::Truncate(f) => {
            let n = base.chars().count();
            base.chars().take(idx(*f, n + 1)).collect()
        },
        Derive::Append(s) => format!("{base}{s}"),
        Derive::Prepend(s) => format!("{s}{base}"),
        Derive::Replace(f, c) => {
            let n = base.chars().count();
            if n == 0 {
                return c.to_string();
            }
            let k = idx(*f, n);
            base.chars().enumerate().map(|(i, x)| if i == k { *c } else { x }).collect()
        },
        Derive::XorAt { pos, stride, count, delta } => {
            let mut v: Vec<char> = base.chars().collect();
            if v.is_empty() {
                return String::new();
            }
            let stride = usize::from(*stride).max(1);
            let span = stride * usize::from((*count).max(1) - 1);
            let start = if v.len() > span { idx(*pos, v.len() - span) } else { 0 };
            for j in 0..usize::from(*count) {
                if let Some(c) = v.get_mut(start + j * stride) {
                    if c.is_ascii() {
                        *c = char::from((*c as u8) ^ (delta & 0x7f));
                    }
                }
            }
            v.into_iter().collect()
        },
        Derive::Swap(a, b) => {
            let mut v: Vec<char> = base.chars().collect();
            if v.len() >= 2 {
                let (i, j) = (idx(*a, v.len()), idx(*b, v.len()));
                v.swap(i, j);
            }
            v.into_iter().collect()
        },
    }
}

pub const N_CTORS: u8 = 9;

/// Builds an owned name through constructor `k`; returns (name, whether the constructor is
/// documented to normalise to upper case).
fn construct(k: u8, s: &str) -> (OwnedVarName, bool) {
    match k % N_CTORS {
        0 => (OwnedVarName::from(s), false),
        1 => (OwnedVarName::from(s.to_string()), true),
        2 => (OwnedVarName::from(s.to_string().into_boxed_str()), true),
        3 => (OwnedVarName::from(Cow::Borrowed(s)), false),
        4 => (OwnedVarName::from(Cow::<str>::Owned(s.to_string())), true),
        5 => {
            let mut m = s.to_string();
            let o = OwnedVarName::from_mut_str(&mut m);
            (o, true)
        },
        6 => (OwnedVarName::from(VarName::new(s)), false),
        7 => (VarName::new(s).to_owned(), false),
        _ => match s.parse::<StaticVarName>() {
            Ok(st) => (OwnedVarName::from(st), false),
            Err(_) => (OwnedVarName::from(s), false),
        },
    }
}

#[derive(Default)]
struct Recorder {
    bytes: Vec<u8>,
    calls: Vec<usize>,
}
impl Hasher for Recorder {
    fn write(&mut self, b: &[u8]) {
        self.bytes.extend_from_slice(b);
        self.calls.push(b.len());
    }
    fn finish(&self) -> u64 {
        0
    }
}

fn record<T: Hash + ?Sized>(t: &T) -> (Vec<u8>, Vec<usize>) {
    let mut r = Recorder::default();
    t.hash(&mut r);
    (r.bytes, r.calls)
}

fn std_hash<T: Hash + ?Sized>(t: &T) -> u64 {
    let mut h = DefaultHasher::new();
    t.hash(&mut h);
    h.finish()
}

fn fnv<T: Hash + ?Sized>(t: &T) -> u64 {
    struct F(u64);
    impl Hasher for F {
        fn write(&mut self, b: &[u8]) {
            for x in b {
                self.0 = (self.0 ^ *x as u64).wrapping_mul(0x100_0000_01b3);
            }
            // boundary-sensitive on purpose
            self.0 = self.0.rotate_left(5) ^ b.len() as u64;
        }
        fn finish(&self) -> u64 {
            self.0
        }
    }
    let mut h = F(0xcbf2_9ce4_8422_2325);
    t.hash(&mut h);
    h.finish()
}

fn test(c: &Case) -> TestResult {
    let srcs: Vec<String> = c.derive.iter().map(|d| derive(&c.base, d)).collect();
    let built: Vec<(OwnedVarName, bool)> = srcs.iter().zip(c.ctor.iter()).map(|(s, k)| construct(*k, s)).collect();
    // --- constructors
    for (i, (o, norm)) in built.iter().enumerate() {
        let s = &srcs[i];
        let got: &str = o.as_ref();
        vensure!(got.eq_ignore_ascii_case(s), "c19-constructor", "constructor {} of {s:?} reads back as {got:?}", c.ctor[i] % N_CTORS);
        let upper = s.to_ascii_uppercase();
        if *norm {
            vensure!(got == upper, "c19-normalise", "normalising constructor {} of {s:?} reads back as {got:?}, expected {upper:?}", c.ctor[i] % N_CTORS);
        } else if INTERNED.contains(&s.as_str()) {
            // "interned names read back as their canonical spelling"; for other spellings and
            // for custom names the statement does not fix what a non-normalising constructor
            // keeps (only that it is the same name ignoring case, checked above)
            vensure!(got == s, "c19-interned-spelling", "interned name {s:?} reads back as {got:?}");
        }
        // (whether `from_mut_str` also rewrites its argument is documented as "potentially" and is
        // not part of the statement: only the returned name is checked)
        // owned and borrowed view of the same value agree
        let v: &VarName = o.borrow();
        vensure!(record(o) == record(v), "c19-borrow-hash", "owned and borrowed hash streams differ for {got:?}");
        vensure!(o.cmp(&OwnedVarName::from(v)) == Ordering::Equal, "c19-borrow-eq", "owned != to_owned(borrow) for {got:?}");
    }
    // --- pairwise relations (owned x owned, borrowed x borrowed)
    let mut any_equal = false;
    let mut mixed_repr_equal = false;
    for i in 0..3 {
        for j in 0..3 {
            let (a, b) = (&built[i].0, &built[j].0);
            let (sa, sb) = (&srcs[i], &srcs[j]);
            let want_eq = sa.eq_ignore_ascii_case(sb);
            let (va, vb): (&VarName, &VarName) = (VarName::new(sa), VarName::new(sb));
            vensure!((a == b) == want_eq, "c19-owned-eq", "OwnedVarName {sa:?} (ctor {}) == {sb:?} (ctor {}) gives {}, expected {want_eq}", c.ctor[i] % N_CTORS, c.ctor[j] % N_CTORS, a == b);
            vensure!((va == vb) == want_eq, "c19-borrowed-eq", "VarName {sa:?} == {sb:?} gives {}, expected {want_eq}", va == vb);
            // the statement fixes no particular order: "a total order consistent with that
            // equality" = Equal exactly for equal names, antisymmetric, transitive (below), and
            // the same for every spelling / representation of the same two names
            let (ab, bb): (&VarName, &VarName) = (a.borrow(), b.borrow());
            let o = a.cmp(b);
            vensure!((o == Ordering::Equal) == want_eq, "c19-owned-ord", "OwnedVarName {sa:?} (ctor {}) cmp {sb:?} (ctor {}) gives {o:?} although the names are {}", c.ctor[i] % N_CTORS, c.ctor[j] % N_CTORS, if want_eq { "equal" } else { "different" });
            vensure!(b.cmp(a) == o.reverse(), "c19-owned-ord", "OwnedVarName order is not antisymmetric on {sa:?} / {sb:?}: {o:?} and {:?}", b.cmp(a));
            vensure!(a.partial_cmp(b) == Some(o) && va.partial_cmp(vb) == Some(va.cmp(vb)), "c19-owned-ord", "partial_cmp disagrees with cmp on {sa:?} / {sb:?}");
            vensure!(va.cmp(vb) == o, "c19-borrowed-ord", "VarName {sa:?} cmp {sb:?} gives {:?} but the owned names built from the same strings order {o:?}", va.cmp(vb));
            vensure!(ab.cmp(bb) == o && (ab == bb) == want_eq, "c19-borrow-consistency", "borrowed views of {sa:?}/{sb:?} order differently from the owned values");
            // congruence: any other spelling of the same two names orders the same way
            for (xa, xb) in [(sa.to_ascii_uppercase(), sb.to_ascii_lowercase()), (sa.to_ascii_lowercase(), sb.to_ascii_uppercase())] {
                vensure!(VarName::new(&xa).cmp(VarName::new(&xb)) == o, "c19-borrowed-ord", "VarName {xa:?} cmp {xb:?} gives {:?} but {sa:?} cmp {sb:?} gives {o:?} (same names, different case)", VarName::new(&xa).cmp(VarName::new(&xb)));
                vensure!(OwnedVarName::from(xa.as_str()).cmp(&OwnedVarName::from(xb.clone())) == o, "c19-owned-ord", "owned {xa:?} cmp {xb:?} differs from {sa:?} cmp {sb:?} = {o:?} (same names, different case)");
            }
            if want_eq {
                any_equal |= i != j;
                if sa != sb {
                    mixed_repr_equal = true;
                }
                vensure!(record(a) == record(b), "c19-hash-owned", "equal names {sa:?} / {sb:?} feed different byte streams to the hasher");
                vensure!(record(va) == record(vb), "c19-hash-borrowed", "equal VarNames {sa:?} / {sb:?} feed different byte streams to the hasher");
                vensure!(std_hash(a) == std_hash(b) && fnv(a) == fnv(b) && std_hash(va) == std_hash(a), "c19-hash-owned", "equal names {sa:?} / {sb:?} hash differently");
            }
        }
    }
    // transitivity on the triple, and sorting as an end-to-end consequence (equal names end up
    // adjacent)
    for (i, j, k) in [(0, 1, 2), (0, 2, 1), (1, 0, 2), (1, 2, 0), (2, 0, 1), (2, 1, 0)] {
        let (a, b, d) = (&built[i].0, &built[j].0, &built[k].0);
        if a.cmp(b) != Ordering::Greater && b.cmp(d) != Ordering::Greater {
            vensure!(a.cmp(d) != Ordering::Greater, "c19-owned-ord", "order is not transitive: {:?} <= {:?} <= {:?} but {:?} > {:?}", srcs[i], srcs[j], srcs[k], srcs[i], srcs[k]);
        }
    }
    let mut sorted: Vec<&OwnedVarName> = built.iter().map(|b| &b.0).collect();
    sorted.sort();
    {
        let s0: &str = sorted[0].as_ref();
        let s1: &str = sorted[1].as_ref();
        let s2: &str = sorted[2].as_ref();
        vensure!(!(s0.eq_ignore_ascii_case(s2) && !s0.eq_ignore_ascii_case(s1)), "c19-owned-ord", "sorting put {s1:?} between the equal names {s0:?} and {s2:?}");
    }
    // --- map lookups by any spelling
    let mut hm: HashMap<OwnedVarName, usize> = HashMap::new();
    let mut bm: BTreeMap<OwnedVarName, usize> = BTreeMap::new();
    for (i, (o, _)) in built.iter().enumerate() {
        hm.insert(o.clone(), i);
        bm.insert(o.clone(), i);
    }
    let mut classes: Vec<String> = srcs.iter().map(|s| s.to_ascii_uppercase()).collect();
    classes.sort();
    classes.dedup();
    vensure!(hm.len() == classes.len() && bm.len() == classes.len(), "c19-map-size", "maps hold {} / {} keys for {} distinct names", hm.len(), bm.len(), classes.len());
    for s in &srcs {
        for spelling in [s.clone(), s.to_ascii_lowercase(), s.to_ascii_uppercase()] {
            let k = VarName::new(&spelling);
            let last = srcs.iter().rposition(|x| x.eq_ignore_ascii_case(s)).unwrap();
            vensure!(hm.get(k) == Some(&last), "c19-hashmap-lookup", "HashMap lookup of {spelling:?} gives {:?}, expected entry {last}", hm.get(k));
            vensure!(bm.get(k) == Some(&last), "c19-btreemap-lookup", "BTreeMap lookup of {spelling:?} gives {:?}, expected entry {last}", bm.get(k));
        }
    }
    let interned = srcs.iter().any(|s| INTERNED.contains(&s.to_ascii_uppercase().as_str()));
    Ok(Outcome::new(any_equal && mixed_repr_equal)
        .label_if(interned, "interned-name")
        .label_if(srcs.iter().any(|s| !s.is_ascii()), "non-ascii")
        .label_if(srcs.iter().any(|s| s.is_empty()), "empty")
        .label_if(srcs.iter().any(|s| [15, 16, 17, 31, 32, 33].contains(&s.len())), "length-at-chunk-boundary")
        .label_if(any_equal, "equal-pair")
        .label_if(mixed_repr_equal, "equal-but-differently-spelled"))
}

fn base_name() -> BoxedStrategy<String> {
    prop_oneof![
        5 => any::<u16>().prop_map(|i| INTERNED[idx(i, INTERNED.len())].to_string()),
        3 => "[A-Za-z_][A-Za-z0-9_-]{0,40}",
        2 => "[A-Z_]{3,8}_[A-Z0-9_]{10,24}_[A-Z0-9_]{10,30}",
        2 => prop_oneof![Just(14usize), Just(15), Just(16), Just(17), Just(18), Just(30), Just(31), Just(32), Just(33), Just(34), Just(47), Just(48), Just(49)]
            .prop_flat_map(|n| proptest::collection::vec(prop_oneof![Just('a'), Just('Z'), Just('_'), Just('k'), Just('K'), Just('0'), proptest::char::range('a', 'z')], n).prop_map(|v| v.into_iter().collect::<String>())),
        1 => Just(String::new()),
        2 => "\\PC{0,20}",
        1 => "[a-zA-Z]{0,10}[äÄßéÉıİſK\u{212a}]{1,2}[a-zA-Z]{0,10}",
    ]
    .boxed()
}

fn derive_strategy() -> BoxedStrategy<Derive> {
    prop_oneof![
        2 => Just(Derive::Same),
        4 => any::<u32>().prop_map(Derive::Recase),
        1 => Just(Derive::Upper),
        1 => Just(Derive::Lower),
        2 => any::<u16>().prop_map(Derive::Truncate),
        2 => prop_oneof![Just("_".to_string()), Just("\u{0}".to_string()), Just("\u{0}\u{0}".to_string()), Just("\u{ff}".to_string()), "[a-zA-Z_]{1,3}"].prop_map(Derive::Append),
        2 => prop_oneof![Just("REDIRECT_".to_string()), Just("HTTP_".to_string()), Just("X_".to_string()), Just("_".to_string()), Just("REDIRECT_REDIRECT_".to_string()), Just("ORIG_".to_string()), Just("\u{0}".to_string()), "[a-zA-Z_]{1,3}"].prop_map(Derive::Prepend),
        2 => (any::<u16>(), prop_oneof![Just(1u8), Just(2), Just(4), Just(8), Just(16), Just(32), 1u8..=40], 2u8..=4, prop_oneof![Just(1u8), Just(3), Just(0x20), Just(0x1f), 1u8..=0x7f])
            .prop_map(|(pos, stride, count, delta)| Derive::XorAt { pos, stride, count, delta }),
        1 => (any::<u16>(), any::<u16>()).prop_map(|(a, b)| Derive::Swap(a, b)),
        2 => (any::<u16>(), prop_oneof![Just('_'), Just('-'), Just('k'), Just('K'), Just('\u{212a}'), Just('ı'), Just('ä'), Just('Ä'), Just('@'), Just('`'), Just('['), Just('{'), any::<char>()]).prop_map(|(f, c)| Derive::Replace(f, c)),
    ]
    .boxed()
}

// ---------------------------------------------------------------------------------------------
// every interned name, in the three case classes, through every constructor pair

#[derive(Clone, Debug, Serialize, Deserialize)]
struct InternCase {
    name: String,
    ctor_a: u8,
    ctor_b: u8,
    pat: u32,
}

fn test_intern(c: &InternCase) -> TestResult {
    let st: StaticVarName = match c.name.parse() {
        Ok(s) => s,
        Err(_) => vfail!("c19-interned-parse", "{:?} (listed in the enum) does not parse as a StaticVarName", c.name),
    };
    let canon: &str = st.as_ref();
    vensure!(canon == c.name, "c19-interned-spelling", "StaticVarName {:?} reads back as {canon:?}", c.name);
    vensure!(<&VarName>::from(st) == VarName::new(&c.name.to_ascii_lowercase()), "c19-borrowed-eq", "static VarName differs from its lower-case spelling");
    let variants = [c.name.clone(), c.name.to_ascii_lowercase(), derive(&c.name, &Derive::Recase(c.pat))];
    for va in &variants {
        for vb in &variants {
            let case = Case { base: c.name.clone(), derive: [Derive::Same, Derive::Same, Derive::Same], ctor: [c.ctor_a, c.ctor_b, 8] };
            let mut case = case;
            case.base = va.clone();
            // a = va via ctor_a, b = vb via ctor_b, c = canonical static
            let srcs = [va.clone(), vb.clone(), c.name.clone()];
            let built: Vec<(OwnedVarName, bool)> = srcs.iter().zip(case.ctor.iter()).map(|(s, k)| construct(*k, s)).collect();
            for i in 0..3 {
                for j in 0..3 {
                    let (a, b) = (&built[i].0, &built[j].0);
                    vensure!(a == b && a.cmp(b) == Ordering::Equal, "c19-owned-eq", "interned {:?}: {:?} (ctor {}) vs {:?} (ctor {}) not equal", c.name, srcs[i], case.ctor[i] % N_CTORS, srcs[j], case.ctor[j] % N_CTORS);
                    vensure!(record(a) == record(b) && std_hash(a) == std_hash(b), "c19-hash-owned", "interned {:?}: spellings {:?} / {:?} hash differently", c.name, srcs[i], srcs[j]);
                }
            }
        }
    }
    // order against the whole table: Equal only for the name itself, antisymmetric, independent
    // of spelling and constructor; the interned type's own order is total on the table
    for other in INTERNED {
        let o = OwnedVarName::from(*other);
        let me = construct(c.ctor_a, &variants[2]).0;
        let canon_me = OwnedVarName::from(c.name.as_str());
        let same = other.eq_ignore_ascii_case(&c.name);
        let r = me.cmp(&o);
        vensure!((r == Ordering::Equal) == same, "c19-owned-ord", "{:?} (ctor {}) cmp interned {other:?} gives {r:?}", variants[2], c.ctor_a % N_CTORS);
        vensure!(o.cmp(&me) == r.reverse() && canon_me.cmp(&o) == r, "c19-owned-ord", "{:?} (ctor {}) cmp interned {other:?} gives {r:?}, but reversed {:?} / canonical spelling {:?}", variants[2], c.ctor_a % N_CTORS, o.cmp(&me), canon_me.cmp(&o));
        let so: StaticVarName = other.parse().map_err(|_| Fail::new("c19-interned-parse", "parse"))?;
        let rs = st.cmp(&so);
        vensure!((rs == Ordering::Equal) == same && so.cmp(&st) == rs.reverse(), "c19-static-ord", "StaticVarName {:?} cmp {other:?} gives {rs:?} (reverse {:?})", c.name, so.cmp(&st));
    }
    {
        let mut table: Vec<StaticVarName> = Vec::new();
        for n in INTERNED {
            table.push(n.parse().map_err(|_| Fail::new("c19-interned-parse", "parse"))?);
        }
        table.sort();
        for i in 0..table.len() {
            for j in i + 1..table.len() {
                vensure!(table[i].cmp(&table[j]) == Ordering::Less, "c19-static-ord", "interned names do not sort into a strict chain: {:?} !< {:?}", table[i], table[j]);
            }
        }
    }
    Ok(Outcome::new(true))
}

// ---------------------------------------------------------------------------------------------
// HTTP header names

fn test_header(h: &String) -> TestResult {
    let hn = match http::header::HeaderName::from_bytes(h.as_bytes()) {
        Ok(n) => n,
        Err(_) => return Ok(Outcome::new(false).label("invalid-header-name")),
    };
    let o = OwnedVarName::from(&hn);
    let expect = format!("HTTP_{}", hn.as_str().to_ascii_uppercase().replace('-', "_"));
    let got: &str = o.as_ref();
    vensure!(got == expect, "c19-header-name", "header {h:?} maps to {got:?}, expected {expect:?}");
    let direct = OwnedVarName::from(expect.as_str());
    vensure!(o == direct && record(&o) == record(&direct), "c19-header-name", "header-derived name differs from the directly constructed {expect:?}");
    Ok(Outcome::new(true).label_if(INTERNED.contains(&expect.as_str()), "maps-to-interned"))
}

pub fn property() -> Property {
    let intern: Box<dyn Sub> = Box::new(EnumSub::<InternCase> {
        name: "interned_table",
        rule: "every interned name (list extracted from src/cgi/intern.rs at build time) x upper / lower / generated mixed case x every ordered pair of the 9 constructors: all equal, equal hash streams, canonical read-back, order against every other interned name = upper-cased byte order; distinct by construction",
        exhaustive: Box::new(|_| true),
        guard_each: true,
        test: Box::new(test_intern),
        body: Box::new(|_t, shard, n, sink| {
            let mut k = 0usize;
            for name in INTERNED {
                for a in 0..N_CTORS {
                    for b in 0..N_CTORS {
                        k += 1;
                        if k % n == shard && !sink.check(InternCase { name: name.to_string(), ctor_a: a, ctor_b: b, pat: (k as u32).wrapping_mul(0x9e37_79b9) }) {
                            return;
                        }
                    }
                }
            }
        }),
    });
    Property {
        id: "C19",
        level: "exploration",
        assumptions: vec![
            "reference relations: str::eq_ignore_ascii_case and lexicographic comparison of the ASCII-upper-cased bytes",
            "hash agreement is observed as the exact sequence of write() calls into a recording Hasher, plus DefaultHasher and a boundary-sensitive FNV variant",
            "the interned-name list is re-extracted from the crate's source at build time",
        ],
        subs: vec![
            intern,
            prop_sub(
                "triples",
                "triples of names derived from one base (interned names, ASCII, lengths 14..18/30..34/47..49, Unicode, Kelvin sign / dotless i / sharp s, empty) by re-casing, truncation, extension, one-character replacement, each built through one of 9 constructors; eq/cmp for owned and borrowed types vs. the reference relations, hash streams, constructor normalisation, HashMap/BTreeMap lookups by three spellings; non-trivial = the triple contains two equal names with different spellings; distinct = hash of the case",
                1_000_000,
                20_000_000,
                |_| boxed((base_name(), [derive_strategy(), derive_strategy(), derive_strategy()], [0u8..N_CTORS, 0u8..N_CTORS, 0u8..N_CTORS]).prop_map(|(base, derive, ctor)| Case { base, derive, ctor })),
                test,
            ),
            prop_sub(
                "header_names",
                "HTTP header names (standard ones and generated token strings): OwnedVarName::from(&HeaderName) = HTTP_ + upper-cased name with '-' -> '_', equal to the directly constructed name; non-trivial = valid header name",
                100_000,
                2_000_000,
                |_| boxed(prop_oneof![
                    2 => prop_oneof![Just("user-agent"), Just("x-forwarded-for"), Just("accept"), Just("content-type"), Just("if-none-match"), Just("sec-ch-ua-platform-version"), Just("x-request-id"), Just("dnt"), Just("service-worker-navigation-preload")].prop_map(str::to_string),
                    3 => "[a-z0-9][a-z0-9-]{0,40}",
                    1 => "[a-z!#$%&'*+.^_`|~0-9-]{1,30}",
                ]),
                test_header,
            ),
        ],
    }
}
