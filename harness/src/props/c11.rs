//! C11 — a client abort ends exactly the aborted request; the connection stays usable.

use proptest::prelude::*;
use serde::{Deserialize, Serialize};

use fastcgi_server::parser::request;

use crate::aio::IoFault;
use crate::conn::{self, AbortSpec, ConnCase, Kind};
use crate::engine::*;
use crate::gen::{self, Chunking};
use crate::model::{self, PreResult};
use crate::props::c02::{self, Act};
use crate::syncdrv::{self, check_request, run_request, ErrKind, StreamDrv, Truth};
use crate::traffic::{self, BodySpec, Noise, PreambleSpec};
use crate::wire::{self, Rec, Reply, T_ABORT};
use crate::{vensure, vfail};

// ---------------------------------------------------------------------------------------------
// synchronous parsers: abort after every record

#[derive(Clone, Debug, Serialize, Deserialize)]
pub struct SyncCase {
    pub first: PreambleSpec,
    pub body: BodySpec,
    /// the request that follows the aborted one
    pub second: PreambleSpec,
    pub abort_len: u16,
    pub abort_pad: u8,
    /// aborts for other request ids sprinkled in (must be ignored)
    pub foreign_aborts: Vec<(u16, u16)>,
    pub buf: u32,
    pub ch: Chunking,
    pub schedule: Vec<Act>,
}

fn test_sync(c: &SyncCase) -> TestResult {
    let (pre_recs, _) = c.first.build();
    let body_recs = c.body.build(c.first.id);
    let (second_recs, _) = c.second.build();
    let own = c.first.id;
    let abort = Rec::new(T_ABORT, own, gen::gen_bytes(c.abort_len as usize, 1), c.abort_pad);
    let need = c.first.params.longest_pair().max(c.second.params.longest_pair()).max(c.body.noise.iter().map(|(_, n)| n.longest_pair()).max().unwrap_or(0)) + 13;
    let cfg = syncdrv::config((c.buf as usize).max(need), 1);
    let m2 = match model::preamble_model(&second_recs, 1).result {
        PreResult::Done { req, .. } => req,
        other => vfail!("harness-inconsistent", "second preamble: {other:?}"),
    };
    let all: Vec<Rec> = pre_recs.iter().chain(body_recs.iter()).cloned().collect();
    let mut positions = 0;
    // the abort replaces everything after the first k records of the request, k = 1..=all.len()
    for k in 1..=all.len() {
        let mut recs: Vec<Rec> = all[..k].to_vec();
        // foreign aborts anywhere before the real one
        for (slot, delta) in &c.foreign_aborts {
            let at = 1 + gen::idx(*slot, recs.len());
            recs.insert(at.min(recs.len()), Rec::new(T_ABORT, traffic::foreign_id(own, *delta), vec![], 0));
        }
        recs.push(abort.clone());
        let abort_idx = recs.len() - 1;
        recs.extend(second_recs.iter().cloned());
        let w = wire::encode_all(&recs);
        let ctx = format!("[abort after {k} of {} records]", all.len());
        positions += 1;
        let in_params = k < pre_recs.len();
        if in_params {
            // ---- Params phase: one EndRequest{RequestComplete, 0}, then the next preamble parses
            let pm = model::preamble_model(&recs, 1);
            let run = run_request(request::Parser::new(&cfg), &w, 0, &c.ch).map_err(|f| Fail::new(f.sig, format!("{ctx} {}", f.msg)))?;
            vensure!(run.done, "c11-no-restart", "{ctx} parser did not finish the request following the aborted one");
            let replies = wire::decode_replies(&run.output).map_err(|e| Fail::new("c04-output-malformed", format!("{ctx} {e}")))?;
            model::match_replies(&pm.replies, &replies).map_err(|e| Fail::new("c11-abort-reply", format!("{ctx} {e}")))?;
            let n_end = replies.iter().filter(|r| matches!(r, Reply::End { id, proto, app } if *id == own && *proto == wire::ST_COMPLETE && *app == 0)).count();
            let same_id_later = c.second.id == own;
            let _ = same_id_later;
            vensure!(n_end == 1, "c11-abort-reply", "{ctx} {n_end} EndRequest{{RequestComplete, 0}} records for the aborted id, expected exactly 1");
            match run.parser.into_request() {
                Ok((req, left)) => {
                    check_request(&req, &m2).map_err(|f| Fail::new(f.sig, format!("{ctx} request after the abort: {}", f.msg)))?;
                    vensure!(left.is_empty(), "c01-leftover", "{ctx} leftover {} bytes", left.len());
                },
                Err(e) => vfail!("c11-no-restart", "{ctx} request after the abort failed: {e:?}"),
            }
        } else {
            // ---- stream phase
            let pre_len = pre_recs.len();
            // index of the first body record in `recs` (foreign aborts may have been inserted)
            let pre_end_idx = recs.iter().enumerate().filter(|(_, r)| r.id == own && r.ty == wire::T_PARAMS && r.payload.is_empty()).map(|(i, _)| i + 1).next().unwrap_or(pre_len);
            let sm = model::stream_model(own, c.first.role, &recs[pre_end_idx..], 1);
            vensure!(sm.abort_at == Some(abort_idx - pre_end_idx), "harness-inconsistent", "{ctx} model abort position {:?}", sm.abort_at);
            let pre_end_off: usize = recs[..pre_end_idx].iter().map(Rec::wire_len).sum();
            let abort_off: usize = recs[..abort_idx].iter().map(Rec::wire_len).sum();
            let run = run_request(request::Parser::new(&cfg), &w, 0, &c.ch).map_err(|f| Fail::new(f.sig, format!("{ctx} {}", f.msg)))?;
            vensure!(run.done, "c01-not-done", "{ctx} first preamble not parsed");
            let fed = run.fed;
            let sp = run.parser.into_stream_parser().map_err(|e| Fail::new("c01-error", format!("{ctx} {e:?}")))?;
            let truth = Truth { content: &sm.content, end_header_fed_at: c02::truth_offsets(&sm, &recs[pre_end_idx..], pre_end_off) };
            let mut d = StreamDrv::new(sp, &w, fed);
            c02::drive_schedule(&mut d, &c.schedule, &sm.order, &truth)?;
            c02::quiesce(&mut d, &sm.order, &truth)?;
            vensure!(d.error == Some(ErrKind::AbortRequest), "c11-abort-not-reported", "{ctx} stream parser ended with {:?} instead of AbortRequest (delivered {:?})", d.error, d.delivered.iter().map(|(k, v)| (*k, v.len())).collect::<Vec<_>>());
            // repeated calls: same error, nothing more happens
            let out_before = d.p.output_buffer().len();
            for _ in 0..3 {
                d.parse(0, None, &truth)?;
                vensure!(d.error == Some(ErrKind::AbortRequest), "c11-abort-not-sticky", "{ctx} error changed to {:?}", d.error);
            }
            vensure!(d.p.output_buffer().len() == out_before, "c11-abort-not-sticky", "{ctx} output grew while the abort is pending");
            vensure!(d.p.is_record_boundary(), "c11-abort-boundary", "{ctx} parser not at a record boundary after reporting the abort");
            d.consume_stream(usize::MAX, &truth)?;
            d.consume_output(usize::MAX)?;
            let replies = wire::decode_replies(&d.out_log).map_err(|e| Fail::new("c04-output-malformed", format!("{ctx} {e}")))?;
            model::match_replies(&sm.replies, &replies).map_err(|e| Fail::new("c11-abort-reply", format!("{ctx} stream phase: {e}")))?;
            // the retained abort record is the first thing the next request parser sees
            let left = d.p.clone().into_input().map_err(|e| Fail::new("c05-conversion", format!("{ctx} {e:?}")))?;
            vensure!(d.pos - left.len() == abort_off, "c11-abort-boundary", "{ctx} unread input starts at byte {} but the abort record is at {abort_off}", d.pos - left.len());
            let rp = d.p.into_request_parser().map_err(|e| Fail::new("c05-conversion", format!("{ctx} {e:?}")))?;
            let pos = d.pos;
            let run2 = run_request(rp, &w, pos, &c.ch).map_err(|f| Fail::new(f.sig, format!("{ctx} {}", f.msg)))?;
            vensure!(run2.done, "c11-no-restart", "{ctx} request after the aborted one not parsed");
            vensure!(run2.output.is_empty(), "c11-abort-reply", "{ctx} the retained abort record produced {} output bytes in the next request parser", run2.output.len());
            match run2.parser.into_request() {
                Ok((req, _)) => check_request(&req, &m2).map_err(|f| Fail::new(f.sig, format!("{ctx} request after the abort: {}", f.msg)))?,
                Err(e) => vfail!("c11-no-restart", "{ctx} request after the abort failed: {e:?}"),
            }
        }
    }
    Ok(Outcome::new(positions >= 3).label_if(!c.foreign_aborts.is_empty(), "foreign-aborts").label_if(c.abort_len > 0 || c.abort_pad > 0, "abort-with-body-or-padding").label_if(usize::from(c.abort_len) + usize::from(c.abort_pad) > 65535, "abort-record-tail>65535"))
}

fn sync_strategy() -> BoxedStrategy<SyncCase> {
    (1u16..=3)
        .prop_flat_map(|role| {
            (
                traffic::preamble_spec(4, 120).prop_map(move |mut p| {
                    p.role = role;
                    p
                }),
                (traffic::body_spec(role, 0, 40, true), proptest::collection::vec((any::<u16>(), conn::mgmt_noise(40)), 0..3)).prop_map(|(mut b, n)| {
                    b.noise = n;
                    b
                }),
                traffic::preamble_spec(3, 60),
                // "any body/padding on the abort record itself": up to the largest record
                prop_oneof![12 => Just(0u16), 4 => 1u16..=30, 1 => prop_oneof![Just(65535u16), Just(65528), 65281u16..=65535, 256u16..=65535]],
                prop_oneof![3 => Just(0u8), 1 => any::<u8>(), 1 => prop_oneof![Just(255u8), Just(1), Just(7), Just(8)]],
                proptest::collection::vec((any::<u16>(), traffic::id_delta()), 0..3),
                c02::buf_pick(),
                gen::chunking(),
                c02::schedule(),
            )
        })
        .prop_map(|(first, body, second, abort_len, abort_pad, foreign_aborts, buf, ch, schedule)| SyncCase { first, body, second, abort_len, abort_pad, foreign_aborts, buf, ch, schedule })
        .boxed()
}

// ---------------------------------------------------------------------------------------------
// Token::run

fn test_async(c: &ConnCase) -> TestResult {
    let b = conn::build(c);
    let m = conn::conn_model(c, &b)?;
    let r = conn::run_conn(c, &b, IoFault::None, |_, _| None)?;
    if std::env::var_os("VERIF_DEBUG").is_some() {
        conn::dump(&b, &r);
    }
    let v = conn::check_clean_run(c, &b, &m, &r)?;
    // C11 specifics beyond the connection model
    let mut j = 0;
    let mut suspended_abort_then_more = false;
    let mut saw_abort_error = false;
    for (i, k) in b.kinds.iter().enumerate() {
        if *k == Kind::ParamsAbort {
            continue;
        }
        let Some(inv) = r.invocations.get(j) else { break };
        j += 1;
        if *k == Kind::StreamAbort {
            if !inv.read_errors.is_empty() {
                saw_abort_error = true;
                if i + 1 < c.reqs.len() && r.invocations.len() > j {
                    suspended_abort_then_more = true;
                }
            }
            // a handler that read to the end of its input must have hit either the stream's real
            // end or the abort
            let ends_with_read_to_end = c.reqs[i]
                .handler
                .iter()
                .take_while(|o| !matches!(o, crate::aio::HOp::Return(_) | crate::aio::HOp::ReturnErr(_)))
                .any(|o| matches!(o, crate::aio::HOp::ReadToEnd { .. }));
            if ends_with_read_to_end && !wire::role_streams(c.reqs[i].pre.role).is_empty() {
                vensure!(!inv.read_errors.is_empty() || inv.eof_seen.values().any(|&e| e), "c11-abort-not-reported", "request #{i}: handler read to the end of an aborted request without seeing end-of-file or ConnectionAborted");
            }
        }
    }
    let params_aborts = b.kinds.iter().filter(|k| **k == Kind::ParamsAbort).count();
    Ok(Outcome::new(saw_abort_error && suspended_abort_then_more)
        .label_if(params_aborts > 0, "params-phase-abort")
        .label_if(saw_abort_error, "handler-saw-connection-aborted")
        .label_if(b.kinds.iter().any(|k| *k == Kind::StreamAbort) && !saw_abort_error, "abort-unnoticed-by-handler")
        .label_if(v.served >= 2, "connection-reused")
        .label_if(c.propagate, "handler-propagates-errors"))
}

fn async_strategy() -> BoxedStrategy<ConnCase> {
    let abort = (any::<u16>(), prop_oneof![12 => Just(0u16), 4 => 1u16..=24, 1 => prop_oneof![Just(65535u16), Just(65528), 65281u16..=65535, 256u16..=65535]], prop_oneof![3 => Just(0u8), 1 => any::<u8>(), 1 => prop_oneof![Just(255u8), Just(1), Just(7), Just(8)]]).prop_map(|(after, body_len, pad)| AbortSpec { after, body_len, pad });
    (conn::conn_case(3, false, Just(false).boxed()), proptest::collection::vec((prop::option::weighted(0.7, abort), any::<u8>()), 3))
        .prop_map(|(mut c, aborts)| {
            for (q, (a, bias)) in c.reqs.iter_mut().zip(aborts) {
                if a.is_some() {
                    // make the interesting shape frequent: a handler that is reading when the
                    // abort arrives, on a connection that is to be reused
                    if bias % 5 < 3 {
                        q.handler.insert(0, crate::aio::HOp::ReadToEnd { cap: 1 + (bias as u16 % 200) });
                    }
                    if bias % 4 != 0 {
                        q.pre.flags |= 1;
                    }
                }
                q.abort = a;
            }
            c
        })
        .boxed()
}

pub fn property() -> Property {
    let _ = Noise::StaleParams { len: 0, pad: 0 };
    Property {
        id: "C11",
        level: "exploration",
        assumptions: vec![
            "a client that aborts stops sending records of that request and waits for its EndRequest before sending the next request",
            "for an aborted request only the single EndRequest is demanded on the log; the two empty stream records are optional (the statement does not fix them)",
            "expected EndRequest status: the handler's own status if it returned one, (RequestComplete, 'ABRT') if it propagated the ConnectionAborted error, (RequestComplete, 0) for an abort during Params",
        ],
        subs: vec![
            prop_sub(
                "sync_every_position",
                "for each generated request (preamble + body with management noise) the AbortRequest (any body / padding) is placed after every one of its records in turn, with aborts for neighbouring ids sprinkled in; Params phase: exactly one EndRequest{RequestComplete,0} and the following preamble parses to its model; stream phase: delivered bytes are a prefix, parse() fails with AbortRequest on every further call without producing output, the abort record is retained at a record boundary and silently skipped by the next request parser; non-trivial = >= 3 abort positions in the case; distinct = hash of the case",
                3_000,
                60_000,
                |_| sync_strategy(),
                test_sync,
            ),
            prop_sub(
                "async_connections",
                "C07 connections in which 0..3 requests are aborted after a generated number of their records (during Params, inside / between / after their input streams), handlers reading / buffered-reading / not reading / already past end-of-stream, propagating errors or not, followed by 0..2 further requests; oracle = connection model + abort expectations; non-trivial = a handler got ConnectionAborted from an input operation and a later request was still served; distinct = hash of the case",
                60_000,
                1_500_000,
                |_| async_strategy(),
                test_async,
            ),
        ],
    }
}
