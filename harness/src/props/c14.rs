//! C14 — graceful shutdown: in-flight requests finish, nothing new starts, waiter woken.

use std::cell::RefCell;
use std::future::Future;
use std::pin::Pin;
use std::rc::Rc;
use std::sync::atomic::{AtomicUsize, Ordering};
use std::sync::{Arc, Mutex};
use std::task::{Context, Poll, Waker};

use proptest::prelude::*;
use serde::{Deserialize, Serialize};

use fastcgi_server::async_io::Token;

use crate::aio::*;
use crate::conn::{self, Built, ConnCase, ConnModel};
use crate::engine::*;
use crate::model;
use crate::syncdrv;
use crate::wire;
use crate::{vensure, vfail};

fn poll_token(fut: &mut Pin<Box<dyn Future<Output = Token> + '_>>) -> Option<Token> {
    let flag = FlagWaker::new(false);
    let waker = Waker::from(flag);
    let mut cx = Context::from_waker(&waker);
    match fut.as_mut().poll(&mut cx) {
        Poll::Ready(t) => Some(t),
        Poll::Pending => None,
    }
}

fn complete_ends(log: &[u8], ids: &[u16]) -> usize {
    wire::decode_log(log).map(|(r, _)| r.iter().filter(|r| r.ty == wire::T_END && ids.contains(&r.id)).count()).unwrap_or(0)
}

// ---------------------------------------------------------------------------------------------
// (a) shutdown injected at every scheduling step of a connection

struct ShutRun {
    end: RunEnd,
    steps: usize,
    world: Shared,
    invocations: Vec<Invocation>,
    inv_at: usize,
    ends_at: usize,
    reads_at: usize,
    /// client bytes handed to the connection task when shutdown was requested
    read_pos_at: usize,
    /// result of polling the shutdown future right after the request (true = Ready)
    first_poll_ready: bool,
    task_finished_at_request: bool,
    woken_after_finish: bool,
    final_poll_ready: bool,
}

fn run_with_shutdown(c: &ConnCase, b: &Built, shutdown_at: usize) -> Result<ShutRun, Fail> {
    let cfg = syncdrv::config((c.buf as usize).max(b.need), c.max_conns as usize);
    let world: Shared = Arc::new(Mutex::new(World::new(b.client.clone(), b.releases.clone(), c.read_script.clone(), c.write_script.clone(), c.vectored, IoFault::None)));
    world.lock().unwrap().flush_script = c.flush_script.clone();
    let step = Arc::new(AtomicUsize::new(0));
    let sh = Arc::new(HShared {
        scripts: c.reqs.iter().zip(&b.kinds).filter(|(_, k)| **k != conn::Kind::ParamsAbort).map(|(r, _)| r.handler.clone()).collect(),
        propagate: c.propagate,
        log: Mutex::new(Vec::new()),
        step: step.clone(),
        world: world.clone(),
    });
    let ids: Vec<u16> = c.reqs.iter().map(|q| q.pre.id).collect();
    let runner = cfg.async_runner();
    let token = {
        let mut f: Pin<Box<dyn Future<Output = Token> + '_>> = Box::pin(runner.get_token());
        match poll_token(&mut f) {
            Some(t) => t,
            None => vfail!("c13-not-immediate", "get_token() pending although no token exists"),
        }
    };
    let mut task = Task::new(token.run(MockReader(world.clone()), MockWriter(world.clone()), make_handler(sh.clone())));
    let mut runner = Some(runner);
    let sflag = FlagWaker::new(false);
    let mut sfut = None;
    let mut out = ShutRun {
        end: RunEnd::Finished, steps: 0, world: world.clone(), invocations: vec![], inv_at: 0, ends_at: 0, reads_at: 0, read_pos_at: 0,
        first_poll_ready: false, task_finished_at_request: false, woken_after_finish: false, final_poll_ready: false,
    };
    let mut steps = 0usize;
    loop {
        let runnable = !task.finished() && task.flag.is_woken();
        if sfut.is_none() && (steps == shutdown_at || !runnable) {
            // request shutdown now
            out.inv_at = sh.log.lock().unwrap().len();
            {
                let w = world.lock().unwrap();
                out.ends_at = complete_ends(&w.log, &ids);
                out.reads_at = w.read_calls;
                out.read_pos_at = w.read_pos;
            }
            out.task_finished_at_request = task.finished();
            let mut f = Box::pin(runner.take().unwrap().shutdown());
            let waker = Waker::from(sflag.clone());
            let mut cx = Context::from_waker(&waker);
            out.first_poll_ready = f.as_mut().poll(&mut cx).is_ready();
            sfut = Some(f);
            continue;
        }
        if task.finished() {
            out.end = RunEnd::Finished;
            break;
        }
        if !task.flag.is_woken() {
            out.end = RunEnd::Idle;
            break;
        }
        if steps >= conn::STEP_LIMIT {
            out.end = RunEnd::StepLimit;
            break;
        }
        step.store(steps, Ordering::SeqCst);
        steps += 1;
        task.poll_once();
    }
    drop(task);
    out.steps = steps;
    out.woken_after_finish = sflag.is_woken();
    if let Some(f) = sfut.as_mut() {
        let waker = Waker::from(sflag.clone());
        let mut cx = Context::from_waker(&waker);
        out.final_poll_ready = f.as_mut().poll(&mut cx).is_ready();
    }
    out.invocations = sh.log.lock().unwrap().clone();
    Ok(out)
}

fn check_shutdown(c: &ConnCase, b: &Built, m: &ConnModel, k: usize) -> Result<(bool, bool), Fail> {
    heartbeat();
    let ctx = format!("[shutdown requested before poll #{k}]");
    let r = run_with_shutdown(c, b, k).map_err(|f| Fail::new(f.sig, format!("{ctx} {}", f.msg)))?;
    let w = r.world.lock().unwrap();
    match r.end {
        RunEnd::Finished => {},
        RunEnd::Idle => vfail!("c14-not-stopped", "{ctx} the connection task stays suspended after shutdown was requested (invocations {}, log {} bytes, client bytes read {}/{})", r.invocations.len(), w.log.len(), w.read_pos, w.client.len()),
        RunEnd::StepLimit => vfail!("conn-spin", "{ctx} task still running after {} polls", r.steps),
    }
    // the shutdown future
    if r.task_finished_at_request {
        vensure!(r.first_poll_ready, "c14-future-pending-without-tokens", "{ctx} all tokens were already dropped but the shutdown future is pending");
    } else {
        vensure!(!r.first_poll_ready, "c14-future-ready-early", "{ctx} the shutdown future completed while the connection's token was alive");
        vensure!(r.woken_after_finish, "c14-waiter-not-woken", "{ctx} the last token was dropped but the task polling the shutdown future was not woken");
    }
    vensure!(r.final_poll_ready, "c14-future-pending-without-tokens", "{ctx} the shutdown future is still pending after the last token was dropped");
    // nothing new starts
    for (i, inv) in r.invocations.iter().enumerate() {
        vensure!(inv.started_at_step < k, "c14-handler-started-after-shutdown", "{ctx} handler invocation #{i} began in poll #{} of the connection task", inv.started_at_step);
    }
    vensure!(r.invocations.len() == r.inv_at, "c14-handler-started-after-shutdown", "{ctx} {} handler invocation(s) began after the request", r.invocations.len() - r.inv_at);
    let in_flight = r.inv_at > r.ends_at && r.invocations.get(r.inv_at - 1).is_some_and(|i| i.returned.as_ref().map_or(true, |x| x.is_ok()));
    // "idle connections ... stop without reading further": a connection is idle when no request
    // is being completed - no handler in flight, and nothing of the last invoked request left to
    // take from the transport (finishing a request may include skipping the rest of its input,
    // before or after its EndRequest)
    let draining = r.inv_at > 0 && r.inv_at == r.ends_at && r.read_pos_at < b.offs[b.spans[r.inv_at - 1].3];
    if !in_flight && !draining && !r.task_finished_at_request {
        vensure!(w.read_calls == r.reads_at, "c14-read-after-shutdown", "{ctx} no request was in flight, yet the connection task read from the transport {} more time(s)", w.read_calls - r.reads_at);
    }
    // every invoked request is complete per the connection model
    let ids: Vec<u16> = c.reqs.iter().map(|q| q.pre.id).collect();
    let view = conn::view_log(&w.log)?;
    // A management reply that parse_request was still writing may be cut off when the idle
    // connection stops (the statement only protects requests whose handler is running).
    vensure!(view.complete_len == view.total_len || !in_flight, "conn-partial-record", "{ctx} a request was in flight, yet the byte log ends with an incomplete record");
    // (requests that never reached a handler may be *rejected* when the connection stops: an
    // EndRequest with a protocol status other than RequestComplete and no output, see below)
    let n_inv = r.invocations.len();
    let g = conn::check_grammar(&view, &ids, &|i| i >= n_inv).map_err(|f| Fail::new(f.sig, format!("{ctx} {}", f.msg)))?;
    let mut expected_ends = 0;
    for (i, inv) in r.invocations.iter().enumerate() {
        let me = &m.reqs[i];
        vensure!(inv.env == me.model.env && inv.role == me.model.role && inv.flags == me.model.flags, "conn-request-env", "{ctx} request #{i}: handler saw a different request than was sent");
        match &inv.returned {
            Some(Ok(st)) => {
                vensure!(g.ended > expected_ends, "c14-inflight-not-completed", "{ctx} request #{i} was being handled when shutdown was requested but has no EndRequest on the log");
                vensure!(g.end_status[expected_ends] == st.on_wire(), "conn-endrequest-status", "{ctx} request #{i}: EndRequest {:?}, handler returned {st:?}", g.end_status[expected_ends]);
                expected_ends += 1;
            },
            Some(Err(_)) => {},
            None => vfail!("c14-inflight-not-completed", "{ctx} request #{i}: the handler was cancelled (its future dropped before returning)"),
        }
        let mut so = Vec::new();
        let mut se = Vec::new();
        for (ty, bytes) in &inv.writes {
            if *ty == wire::T_STDERR { se.extend_from_slice(bytes) } else { so.extend_from_slice(bytes) }
        }
        vensure!(g.data[i].0 == so && g.data[i].1 == se, "conn-stdout-content", "{ctx} request #{i}: output records differ from the handler's successful writes");
        vensure!(inv.read_errors.is_empty() && inv.write_errors.is_empty(), "conn-unexpected-io-error", "{ctx} request #{i}: I/O errors {:?} {:?}", inv.read_errors, inv.write_errors);
    }
    for k in expected_ends..g.ended {
        let rejected = g.end_status[k].0 != wire::ST_COMPLETE && g.data.get(k).map_or(true, |d| d.2 == 0) && k >= n_inv;
        vensure!(rejected, "conn-endrequest-count", "{ctx} {} EndRequest records, {} invocations returned a status; EndRequest #{k} {:?} is not a rejection of a request that never reached a handler", g.ended, expected_ends, g.end_status[k]);
    }
    model::match_replies_prefix(&m.e1, &g.mgmt).map_err(|e| Fail::new("conn-mgmt-replies", format!("{ctx} {e}")))?;
    Ok((in_flight, !r.task_finished_at_request && r.inv_at == r.ends_at))
}

fn test_conn(c: &ConnCase) -> TestResult {
    let b = conn::build(c);
    let m = conn::conn_model(c, &b)?;
    let r0 = conn::run_conn(c, &b, IoFault::None, |_, _| None)?;
    // What a server does with requests a client *pipelines* is not covered by any statement (C07
    // is about clients with one request outstanding): if the run without shutdown does not serve
    // them one by one as the model says, the case has no reference and is skipped; with shutdown
    // injected, only the C14 clauses themselves (signatures c14-*) are judged for such clients.
    match conn::check_clean_run(c, &b, &m, &r0) {
        Ok(_) => {},
        Err(f) if c.pipelined && !f.sig.starts_with("c14-") && f.sig != "panic" && f.sig != "conn-spin" => {
            return Ok(Outcome::new(false).label("pipelined-client-not-served-as-modelled"));
        },
        Err(f) => return Err(f),
    }
    let total = r0.steps;
    if std::env::var_os("VERIF_DEBUG").is_some() && c.reqs.len() >= 9 { eprintln!("long pipeline: {} reqs, {} invocations, {} steps, kinds {:?}", c.reqs.len(), r0.invocations.len(), total, b.kinds); }
    let pts: Vec<usize> = if total <= 600 { (0..=total + 1).collect() } else { (0..300).chain((300..total).step_by(total / 300)).chain(total - 5..=total + 1).collect() };
    let mut runs = 0u64;
    let mut saw_in_flight = false;
    let mut saw_idle = false;
    for k in pts {
        let (inflight, idle) = match check_shutdown(c, &b, &m, k) {
            Ok(x) => x,
            Err(f) if c.pipelined && !f.sig.starts_with("c14-") && f.sig != "panic" && f.sig != "conn-spin" => continue,
            Err(f) => return Err(f),
        };
        saw_in_flight |= inflight;
        saw_idle |= idle;
        runs += 1;
    }
    let mut o = Outcome::new(saw_in_flight && saw_idle && total >= 4)
        .label_if(saw_in_flight, "shutdown-while-request-in-flight")
        .label_if(saw_idle, "shutdown-while-waiting-for-a-request")
        .label_if(r0.invocations.len() >= 2, "multi-request-script")
        .label_if(r0.invocations.len() >= 9, ">=9-requests-served");
    o.extra_evals = runs;
    Ok(o)
}

// ---------------------------------------------------------------------------------------------
// (a') connections on which the client aborts requests: the shutdown future and "nothing new
// starts" only (what the log must contain for aborted requests is C11's business)

fn test_aborted(c: &ConnCase) -> TestResult {
    let b = conn::build(c);
    let r0 = conn::run_conn(c, &b, IoFault::None, |_, _| None)?;
    if r0.end != RunEnd::Finished {
        // no reference: C11 / C07 judge whether such a connection must finish
        return Ok(Outcome::new(false).label("clean-run-does-not-finish"));
    }
    let total = r0.steps;
    let pts: Vec<usize> = if total <= 400 { (0..=total + 1).collect() } else { (0..200).chain((200..total).step_by(total / 200)).chain(total - 5..=total + 1).collect() };
    let mut runs = 0u64;
    let mut after_abort = false;
    for k in pts {
        heartbeat();
        let ctx = format!("[shutdown requested before poll #{k}]");
        let r = run_with_shutdown(c, &b, k).map_err(|f| Fail::new(f.sig, format!("{ctx} {}", f.msg)))?;
        let w = r.world.lock().unwrap();
        match r.end {
            RunEnd::Finished => {},
            RunEnd::Idle => vfail!("c14-not-stopped", "{ctx} the connection task stays suspended after shutdown was requested (invocations {}, log {} bytes, client bytes read {}/{})", r.invocations.len(), w.log.len(), w.read_pos, w.client.len()),
            RunEnd::StepLimit => vfail!("conn-spin", "{ctx} task still running after {} polls", r.steps),
        }
        if r.task_finished_at_request {
            vensure!(r.first_poll_ready, "c14-future-pending-without-tokens", "{ctx} all tokens were already dropped but the shutdown future is pending");
        } else {
            vensure!(!r.first_poll_ready, "c14-future-ready-early", "{ctx} the shutdown future completed while the connection's token was alive (Token::run had not returned; {} request(s) handled so far)", r.inv_at);
            vensure!(r.woken_after_finish, "c14-waiter-not-woken", "{ctx} the last token was dropped but the task polling the shutdown future was not woken");
        }
        vensure!(r.final_poll_ready, "c14-future-pending-without-tokens", "{ctx} the shutdown future is still pending after the last token was dropped");
        for (i, inv) in r.invocations.iter().enumerate() {
            vensure!(inv.started_at_step < k, "c14-handler-started-after-shutdown", "{ctx} handler invocation #{i} began in poll #{} of the connection task", inv.started_at_step);
        }
        after_abort |= !r.task_finished_at_request && r.invocations[..r.inv_at].iter().any(|i| i.read_errors.iter().any(|(_, k)| *k == std::io::ErrorKind::ConnectionAborted));
        runs += 1;
    }
    let mut o = Outcome::new(after_abort).label_if(after_abort, "shutdown-after-a-handler-saw-its-request-aborted").label_if(r0.invocations.len() >= 2, "multi-request-script");
    o.extra_evals = runs;
    Ok(o)
}

fn aborted_strategy() -> BoxedStrategy<ConnCase> {
    let abort = (any::<u16>(), prop_oneof![3 => Just(0u16), 1 => 1u16..=24], prop_oneof![3 => Just(0u8), 1 => any::<u8>()]).prop_map(|(after, body_len, pad)| conn::AbortSpec { after, body_len, pad });
    (conn_strategy(), proptest::collection::vec((prop::option::weighted(0.6, abort), any::<u8>()), 3))
        .prop_map(|(mut c, aborts)| {
            for (q, (a, bias)) in c.reqs.iter_mut().zip(aborts) {
                if a.is_some() {
                    if bias % 5 < 4 {
                        q.handler.insert(0, HOp::ReadToEnd { cap: 1 + (bias as u16 % 200) });
                    }
                    if bias % 6 != 0 {
                        q.pre.flags |= 1;
                    }
                    c.propagate |= bias % 4 != 0;
                }
                q.abort = a;
            }
            c
        })
        .boxed()
}

// ---------------------------------------------------------------------------------------------
// (b) wait-group windows forced through the hook

#[derive(Clone, Debug, Serialize, Deserialize, PartialEq, Eq, Hash)]
pub enum WOp {
    /// poll the shutdown future; drop these tokens at hook point A (after the liveness check,
    /// before the waker is registered) / B (after registration, before the poll returns)
    Poll {
        at_a: Vec<u8>,
        at_b: Vec<u8>,
        /// which of the task's wakers is used for this poll (a task may be polled with
        /// different wakers over time; only the latest one has to be woken)
        #[serde(default)]
        waker: u8,
    },
    Drop(u8),
    /// drop the token while its thread is unwinding from a panic (a handler panic)
    DropInPanic(u8),
}

#[derive(Clone, Debug, Serialize, Deserialize)]
pub struct HookCase {
    pub tokens: u8,
    pub ops: Vec<WOp>,
}

fn test_hook(c: &HookCase) -> TestResult {
    let n = (c.tokens as usize).min(4);
    let cfg = syncdrv::config(64, 4);
    let runner = cfg.async_runner();
    let toks: Rc<RefCell<Vec<Option<Token>>>> = Rc::new(RefCell::new(Vec::new()));
    for _ in 0..n {
        let mut f: Pin<Box<dyn Future<Output = Token> + '_>> = Box::pin(runner.get_token());
        match poll_token(&mut f) {
            Some(t) => toks.borrow_mut().push(Some(t)),
            None => vfail!("c13-not-immediate", "token not available below the limit"),
        }
    }
    let mut fut = Box::pin(runner.shutdown());
    let flags = [FlagWaker::new(false), FlagWaker::new(false), FlagWaker::new(false)];
    // waker used by the latest poll
    let mut cur = 0usize;
    // last poll result: None = never polled, Some(false) = Pending, Some(true) = Ready
    let mut last: Option<bool> = None;
    let mut window_used = false;
    let mut last_drop_in_window = false;
    let alive = |t: &Rc<RefCell<Vec<Option<Token>>>>| t.borrow().iter().filter(|x| x.is_some()).count();
    let drop_tok = |t: &Rc<RefCell<Vec<Option<Token>>>>, i: u8| {
        let mut g = t.borrow_mut();
        if g.is_empty() {
            return false;
        }
        let k = i as usize % g.len();
        g[k].take().is_some()
    };
    let after = |what: &str, last: Option<bool>, cur: usize, toks: &Rc<RefCell<Vec<Option<Token>>>>| -> Result<(), Fail> {
        if alive(toks) == 0 && last == Some(false) {
            vensure!(flags[cur].is_woken(), "c14-waiter-not-woken", "{what}: the last token is gone, the shutdown future's latest poll (with waker #{cur}) returned Pending, and that waker has not fired since");
        }
        Ok(())
    };
    let mut ops = c.ops.clone();
    ops.push(WOp::Poll { at_a: vec![], at_b: vec![], waker: 0 });
    for i in 0..n as u8 {
        ops.push(WOp::Drop(i));
    }
    ops.push(WOp::Poll { at_a: vec![], at_b: vec![], waker: 0 });
    for (oi, op) in ops.iter().enumerate() {
        let what = format!("op {oi} {op:?}");
        match op {
            WOp::Drop(i) => {
                drop_tok(&toks, *i);
            },
            WOp::DropInPanic(i) => {
                let taken = {
                    let mut g = toks.borrow_mut();
                    if g.is_empty() { None } else { let k = *i as usize % g.len(); g[k].take() }
                };
                if let Some(tok) = taken {
                    let r = std::panic::catch_unwind(std::panic::AssertUnwindSafe(move || {
                        let _held = tok;
                        panic!("handler panic (deliberate, C14)");
                    }));
                    vensure!(r.is_err(), "harness-inconsistent", "deliberate panic did not unwind");
                }
            },
            WOp::Poll { at_a, at_b, waker } => {
                if last == Some(true) {
                    continue; // a completed future must not be polled again
                }
                let alive_before = alive(&toks);
                let (ta, tb) = (toks.clone(), toks.clone());
                let (a, b2) = (at_a.clone(), at_b.clone());
                let hit = Rc::new(RefCell::new((false, false)));
                let hit2 = hit.clone();
                fastcgi_server::verif_hooks::set(Some(Box::new(move |name| match name {
                    "waitgroup:upgraded" => {
                        for i in &a {
                            let mut g = ta.borrow_mut();
                            if !g.is_empty() {
                                let k = *i as usize % g.len();
                                if g[k].take().is_some() {
                                    hit2.borrow_mut().0 = true;
                                }
                            }
                        }
                    },
                    "waitgroup:registered" => {
                        for i in &b2 {
                            let mut g = tb.borrow_mut();
                            if !g.is_empty() {
                                let k = *i as usize % g.len();
                                if g[k].take().is_some() {
                                    hit2.borrow_mut().1 = true;
                                }
                            }
                        }
                    },
                    _ => {},
                })));
                cur = *waker as usize % flags.len();
                flags[cur].take();
                let waker = Waker::from(flags[cur].clone());
                let mut cx = Context::from_waker(&waker);
                let ready = fut.as_mut().poll(&mut cx).is_ready();
                fastcgi_server::verif_hooks::set(None);
                let (ha, hb) = *hit.borrow();
                if ha || hb {
                    window_used = true;
                    if alive(&toks) == 0 {
                        last_drop_in_window = true;
                    }
                }
                if ready {
                    // "after the last token has been dropped - never earlier": decided at the
                    // moment the poll returns (a drop inside the poll's window may legitimately
                    // be noticed by that very poll)
                    let alive_now = alive(&toks);
                    vensure!(alive_now == 0, "c14-future-ready-early", "{what}: the shutdown future completed although {alive_now} token(s) are alive ({alive_before} when it was polled)");
                } else {
                    vensure!(alive_before > 0, "c14-future-pending-without-tokens", "{what}: the shutdown future is pending although no token exists");
                }
                last = Some(ready);
            },
        }
        after(&what, last, cur, &toks)?;
    }
    vensure!(last == Some(true), "c14-future-pending-without-tokens", "the shutdown future never completed although every token was dropped");
    Ok(Outcome::new(last_drop_in_window)
        .label_if(window_used, "drop-inside-poll-window")
        .label_if(last_drop_in_window, "last-drop-inside-poll-window")
        .label_if(n == 0, "no-tokens"))
}

// ---------------------------------------------------------------------------------------------
// (c) real threads

#[derive(Clone, Debug, Serialize, Deserialize)]
pub struct Race {
    pub droppers: u8,
    pub rounds: u32,
}

fn test_race(c: &Race) -> TestResult {
    use std::sync::atomic::AtomicBool;
    struct TW(std::thread::Thread, AtomicBool);
    impl std::task::Wake for TW {
        fn wake(self: Arc<Self>) {
            self.1.store(true, Ordering::SeqCst);
            self.0.unpark();
        }
    }
    for round in 0..c.rounds {
        let cfg = syncdrv::config(64, 8);
        let runner = cfg.async_runner();
        let mut toks = Vec::new();
        for _ in 0..c.droppers.clamp(1, 8) {
            let mut f: Pin<Box<dyn Future<Output = Token> + '_>> = Box::pin(runner.get_token());
            toks.push(poll_token(&mut f).ok_or_else(|| Fail::new("c13-not-immediate", "token unavailable"))?);
        }
        let mut fut = Box::pin(runner.shutdown());
        let tw = Arc::new(TW(std::thread::current(), AtomicBool::new(false)));
        let waker = Waker::from(tw.clone());
        let mut cx = Context::from_waker(&waker);
        let handles: Vec<_> = toks
            .into_iter()
            .enumerate()
            .map(|(i, t)| {
                std::thread::spawn(move || {
                    for _ in 0..((round as usize * 7 + i * 13) % 50) {
                        std::hint::spin_loop();
                    }
                    drop(t);
                })
            })
            .collect();
        // poll concurrently with the drops
        let mut last_ready = false;
        let mut polls = 0;
        while !last_ready && polls < 6 {
            tw.1.store(false, Ordering::SeqCst);
            last_ready = fut.as_mut().poll(&mut cx).is_ready();
            polls += 1;
            std::hint::spin_loop();
        }
        for h in handles {
            let _ = h.join();
        }
        // all tokens are gone now
        if !last_ready {
            vensure!(tw.1.load(Ordering::SeqCst), "c14-waiter-not-woken", "round {round}: every token has been dropped, the shutdown future's last poll returned Pending, and its waker never fired afterwards");
            vensure!(fut.as_mut().poll(&mut cx).is_ready(), "c14-future-pending-without-tokens", "round {round}: shutdown future still pending after all tokens were dropped");
        }
    }
    Ok(Outcome::new(true))
}

// ---------------------------------------------------------------------------------------------
// (a2) several connections of one runner, some idle, some mid-preamble

#[derive(Clone, Debug, Serialize, Deserialize)]
pub struct Multi {
    /// per connection: number of client bytes available (0 = nothing yet; < 24 = mid-preamble)
    pub conns: Vec<u8>,
    /// tokens obtained but never run (dropped after the shutdown request, in this order)
    pub spare: u8,
}

fn test_multi(c: &Multi) -> TestResult {
    let n = c.conns.len().min(4);
    let cfg = syncdrv::config(64, 8);
    let runner = cfg.async_runner();
    let pre = wire::encode_all(&[wire::Rec::new(wire::T_BEGIN, 1, wire::begin_body(1, 1), 0), wire::Rec::new(wire::T_PARAMS, 1, vec![], 0)]);
    let mut tasks = Vec::new();
    let mut worlds = Vec::new();
    let mut logs = Vec::new();
    for i in 0..n {
        let avail = (c.conns[i] as usize).min(pre.len() - 1);
        let world: Shared = Arc::new(Mutex::new(World::new(pre[..avail].to_vec(), vec![(avail, Cond::Now)], vec![], vec![], false, IoFault::None)));
        world.lock().unwrap().close_at_end = false;
        let sh = Arc::new(HShared { scripts: vec![], propagate: true, log: Mutex::new(Vec::new()), step: Arc::new(AtomicUsize::new(0)), world: world.clone() });
        let token = {
            let mut f: Pin<Box<dyn Future<Output = Token> + '_>> = Box::pin(runner.get_token());
            poll_token(&mut f).ok_or_else(|| Fail::new("c13-not-immediate", "token unavailable below the limit"))?
        };
        let mut t = Task::new(token.run(MockReader(world.clone()), MockWriter(world.clone()), make_handler(sh.clone())));
        let (end, _) = run_single(&mut t, 10_000, |_| {});
        vensure!(end == RunEnd::Idle, "harness-inconsistent", "connection {i} should be waiting for input, is {end:?}");
        tasks.push(t);
        worlds.push(world);
        logs.push(sh);
    }
    let mut spare = Vec::new();
    for _ in 0..c.spare.min(3) {
        let mut f: Pin<Box<dyn Future<Output = Token> + '_>> = Box::pin(runner.get_token());
        spare.push(poll_token(&mut f).ok_or_else(|| Fail::new("c13-not-immediate", "token unavailable below the limit"))?);
    }
    let reads_before: Vec<usize> = worlds.iter().map(|w| w.lock().unwrap().read_calls).collect();
    let mut fut = Box::pin(runner.shutdown());
    let flag = FlagWaker::new(false);
    let waker = Waker::from(flag.clone());
    let mut cx = Context::from_waker(&waker);
    let first = fut.as_mut().poll(&mut cx).is_ready();
    vensure!(first == (n == 0 && spare.is_empty()), "c14-future-ready-early", "shutdown future ready = {first} with {n} connections and {} spare tokens alive", spare.len());
    for (i, t) in tasks.iter_mut().enumerate() {
        vensure!(t.flag.is_woken(), "c14-idle-not-woken", "idle connection {i} of {n} was not woken by the shutdown request");
        let (end, _) = run_single(t, 10_000, |_| {});
        vensure!(end == RunEnd::Finished, "c14-not-stopped", "connection {i} did not stop after the shutdown request ({end:?})");
        vensure!(worlds[i].lock().unwrap().read_calls == reads_before[i], "c14-read-after-shutdown", "idle connection {i} read from its transport after the shutdown request");
        vensure!(logs[i].log.lock().unwrap().is_empty(), "c14-handler-started-after-shutdown", "connection {i} invoked its handler");
    }
    drop(tasks);
    if !spare.is_empty() {
        vensure!(!flag.is_woken() || n == 0 && false, "c14-future-ready-early", "shutdown waiter woken while {} token(s) are still alive", spare.len());
        let again = fut.as_mut().poll(&mut cx).is_ready();
        vensure!(!again, "c14-future-ready-early", "shutdown future completed while {} token(s) are still alive", spare.len());
        flag.take();
        spare.clear();
    }
    if !first {
        vensure!(flag.is_woken(), "c14-waiter-not-woken", "all tokens are gone but the shutdown waiter was not woken");
        vensure!(fut.as_mut().poll(&mut cx).is_ready(), "c14-future-pending-without-tokens", "shutdown future pending although all tokens are gone");
    }
    Ok(Outcome::new(n >= 2).label_if(c.spare > 0, "unused-tokens").label_if(c.conns.iter().take(n).any(|&b| b > 0), "mid-preamble"))
}

fn wop() -> BoxedStrategy<WOp> {
    prop_oneof![
        4 => (proptest::collection::vec(0u8..4, 0..4), proptest::collection::vec(0u8..4, 0..4), prop_oneof![3 => Just(0u8), 2 => Just(1u8), 1 => Just(2u8)]).prop_map(|(at_a, at_b, waker)| WOp::Poll { at_a, at_b, waker }),
        2 => (0u8..4).prop_map(WOp::Drop),
        1 => (0u8..4).prop_map(WOp::DropInPanic),
    ]
    .boxed()
}

fn conn_strategy() -> BoxedStrategy<ConnCase> {
    // scripts with plenty of suspension points: not-ready results on both sides
    conn::conn_case(3, false, Just(false).boxed())
        .prop_map(|mut c| {
            if !c.read_script.iter().any(|s| matches!(s, RStep::Pending)) {
                c.read_script.push(RStep::Pending);
            }
            if !c.write_script.iter().any(|s| matches!(s, WStep::Pending)) {
                c.write_script.push(WStep::Pending);
            }
            for q in &mut c.reqs {
                for s in &mut q.body.streams {
                    s.lens.truncate(3);
                    for l in &mut s.lens {
                        *l = (*l % 400).max(1);
                    }
                }
                for op in &mut q.handler {
                    if let HOp::Write { len, .. } | HOp::WriteAll { len, .. } = op {
                        *len %= 600;
                    }
                }
            }
            c
        })
        .boxed()
}

/// Pipelining client: all requests are on the wire at once. Handlers are restricted to those that
/// leave the parser at a record boundary (read nothing / read the final stream to its end), since
/// `Request::close` otherwise skips forward through whatever is buffered.
fn pipelined_strategy() -> BoxedStrategy<ConnCase> {
    conn_strategy()
        .prop_map(|mut c| {
            c.pipelined = true;
            c.tail.clear();
            // one case in five: a long pipeline (9..13 copies of a small first request, all
            // delivered by the same few reads), so that many requests are served back to back
            // from the buffer
            if c.max_conns % 3 == 0 {
                let mut one = c.clone();
                one.reqs.truncate(1);
                if std::env::var_os("VERIF_DEBUG").is_some() { eprintln!("long-pipeline candidate: single client len {}", conn::build(&one).client.len()); }
                if conn::build(&one).client.len() <= 1500 {
                    let copies = 9 + (c.reqs[0].pre.id % 5) as usize;
                    let q0 = c.reqs[0].clone();
                    c.reqs = std::iter::repeat(q0).take(copies).collect();
                    c.buf = c.buf.max(8192);
                }
            }
            let n = c.reqs.len();
            for (i, q) in c.reqs.iter_mut().enumerate() {
                let cap = 1 + (q.pre.id % 97);
                let write = q.handler.iter().find(|o| matches!(o, HOp::Write { .. } | HOp::WriteAll { .. })).cloned();
                let ret = q.handler.iter().rev().find(|o| matches!(o, HOp::Return(_))).cloned();
                let reads = q.handler.iter().any(|o| matches!(o, HOp::Read(_) | HOp::ReadToEnd { .. } | HOp::FillConsume(_)));
                let mut h = Vec::new();
                match q.pre.role {
                    crate::wire::ROLE_FILTER => {
                        h.push(HOp::AwaitWriteable);
                        h.push(HOp::ReadToEnd { cap });
                    },
                    crate::wire::ROLE_RESPONDER if reads => h.push(HOp::ReadToEnd { cap }),
                    _ => {},
                }
                h.extend(write);
                h.extend(ret);
                q.handler = h;
                q.wait_mgmt = false;
                q.after.clear();
                if i + 1 < n {
                    q.pre.flags |= 1;
                }
            }
            c
        })
        .boxed()
}

pub fn property() -> Property {
    let race: Box<dyn Sub> = Box::new(EnumSub::<Race> {
        name: "threads",
        rule: "1..8 threads each dropping one token while the main thread polls the shutdown future; after joining, 'last poll returned Pending and the waker never fired' is a violation (timing-independent oracle, sampled interleavings); rounds: 3 000 quick / 60 000 thorough",
        exhaustive: Box::new(|_| false),
        guard_each: true,
        test: Box::new(test_race),
        body: Box::new(|tier, shard, n, sink| {
            let rounds = tier.pick(3_000u32, 60_000u32) / (n as u32 * 4).max(1);
            for d in [1u8, 2, 3, 8] {
                if !sink.check(Race { droppers: d + (shard % 2) as u8, rounds }) {
                    return;
                }
            }
        }),
    });
    Property {
        id: "C14",
        level: "exploration",
        assumptions: vec![
            "(a) shutdown is requested before poll #k of the connection task, for every k of the fault-free reference run (beyond 600 polls: the first 300 densely, the rest evenly sampled); 'begins after the request' is judged by the executor step in which the handler closure was entered",
            "(b) the two scheduling points inside the wait-group future (guarded by --cfg fastcgi_server_verif) let the harness drop tokens between the liveness check and the waker registration and between registration and return: the window C14 names is forced, not raced",
            "(c) real threads only sample interleavings of the atomics inside Arc / AtomicWaker; loom-style exhaustive scheduling is a different technique (DESIGN.md section 7)",
        ],
        subs: vec![
            prop_sub(
                "connections",
                "C07-style connection scripts (1..3 requests, with not-ready results on reader and writer so that the task is polled many times) x shutdown requested before every poll of the task; after the request: no handler invocation begins, an in-flight request completes per the connection model (handler data, stream ends, EndRequest with the handler's status), a task without a request in flight stops without another transport read, the shutdown future is pending while the token lives, is woken by its drop and then ready; evaluations count the injected executions; non-trivial = the enumeration hit both an in-flight request and a task waiting for a request; distinct = hash of the script",
                200,
                5_000,
                |_| conn_strategy(),
                test_conn,
            ),
            prop_sub(
                "pipelined_connections",
                "as 'connections', but the client pipelines: every request is available at once, so the next request is already buffered when shutdown is requested during a handler or close (handlers restricted to those that leave the parser at a record boundary); same oracle; non-trivial as above",
                150,
                4_000,
                |_| pipelined_strategy(),
                test_conn,
            ),
            prop_sub(
                "aborted_connections",
                "connection scripts in which the client aborts 60 % of the requests (during Params or a stream, handlers mostly reading and propagating the error, mostly keep-alive so that further requests follow) x shutdown requested before every poll of the task: the task finishes, no handler invocation begins after the request, the shutdown future is pending at the request iff Token::run has not returned, its waiter is woken by the last drop and it is ready afterwards (log contents of aborted requests are C11's business); non-trivial = shutdown requested after a handler saw ConnectionAborted while the task was still running; distinct = hash of the script",
                150,
                4_000,
                |_| aborted_strategy(),
                test_aborted,
            ),
            prop_sub(
                "several_connections",
                "0..4 connections of one runner, each suspended waiting for input (nothing received yet, or part of a preamble), plus 0..3 tokens never run; shutdown: every connection task is woken, stops without reading and without invoking a handler; the shutdown future stays pending (and its waiter unwoken) while any token lives and completes, woken, after the last drop; non-trivial = >= 2 connections; distinct = hash of the case",
                200_000,
                4_000_000,
                |_| boxed((proptest::collection::vec(prop_oneof![Just(0u8), 1u8..24], 0..=4), 0u8..=3).prop_map(|(conns, spare)| Multi { conns, spare })),
                test_multi,
            ),
            prop_sub(
                "waitgroup_windows",
                "0..4 tokens; histories of {poll the shutdown future, drop token i}, where every poll may drop generated subsets of tokens at hook point A (after Weak::upgrade, before waker registration) and B (after registration, before the temporary Arc is released); oracle: Ready only when no token was alive, Pending otherwise, and once the last token is gone a Pending future has been woken; non-trivial = the last token was dropped inside a poll window; distinct = hash of the case",
                1_000_000,
                20_000_000,
                |_| boxed((0u8..=4, proptest::collection::vec(wop(), 0..8)).prop_map(|(tokens, ops)| HookCase { tokens, ops })),
                test_hook,
            ),
            race,
        ],
    }
}
