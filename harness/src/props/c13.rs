//! C13 — never more live connection tokens than max_conns; freed slots wake waiters.

use std::future::Future;
use std::pin::Pin;
use std::sync::atomic::{AtomicBool, AtomicUsize, Ordering};
use std::sync::{Arc, Mutex};
use std::task::{Context, Poll, Wake, Waker};

use proptest::prelude::*;
use serde::{Deserialize, Serialize};

use fastcgi_server::async_io::{Runner, Token};

use crate::aio::*;
use crate::engine::*;
use crate::gen::idx;
use crate::syncdrv;
use crate::{vensure, vfail};

#[derive(Clone, Debug, Serialize, Deserialize, PartialEq, Eq, Hash)]
pub enum Op {
    /// create a get_token future on runner r (fraction)
    Get(u16),
    /// poll a created future (fraction over the not-yet-finished ones)
    Poll(u16),
    /// drop a created future that has not produced a token (cancel the request)
    DropFuture(u16),
    DropToken(u16),
    /// drop a token while unwinding from a panic
    DropTokenInPanic(u16),
    /// hand a token to Token::run on a connection that is closed immediately
    RunToCompletion(u16),
    /// hand a token to Token::run on a connection whose client stays silent: the connection is
    /// being served (and occupies its slot) until FinishRun
    StartRun(u16),
    /// end a served connection: the client closes it (false) or the run future is dropped (true)
    FinishRun(u16, bool),
    /// like StartRun, but the client has sent a request and part of its body: the connection is
    /// parked *inside the handler* (which is reading) and stays there across a shutdown
    StartRunInHandler(u16),
    /// like StartRun, but the handler has *returned* after reading part of an input record whose
    /// rest has not arrived: the connection is parked inside `Request::close` (draining up to the
    /// record boundary), `Token::run` has not returned and the token still exists. The flag says
    /// whether the request carried KEEP_CONN.
    StartRunInClose(u16, bool),
    /// Runner::shutdown on runner r (its queued requests are cancelled first); connections of
    /// that runner which are idle stop, one that is inside its handler keeps its slot
    Shutdown(u16),
    /// a runner with a different limit is overwritten by `clone_from(&runner r)` and joins the family
    CloneFrom(u16),
    CloneRunner(u16),
}

#[derive(Clone, Debug, Serialize, Deserialize)]
pub struct Case {
    pub limit: u8,
    pub ops: Vec<Op>,
}

struct Pending {
    fut: Pin<Box<dyn Future<Output = Token>>>,
    flag: Arc<FlagWaker>,
    polled: bool,
    runner: usize,
}

fn live_check(live: usize, limit: usize, what: &str) -> Result<(), Fail> {
    vensure!(live <= limit, "c13-limit-exceeded", "{what}: {live} tokens alive (held or serving a connection) with max_conns = {limit}");
    Ok(())
}

fn test(c: &Case) -> TestResult {
    let limit = (c.limit as usize).clamp(1, 4);
    let cfg = syncdrv::config(64, limit);
    let mut runners: Vec<Option<Arc<Runner>>> = vec![Some(Arc::new(cfg.async_runner()))];
    let mut shutdowns: Vec<Pin<Box<dyn Future<Output = ()>>>> = Vec::new();
    let mut used_shutdown = false;
    let mut pending: Vec<Pending> = Vec::new();
    let mut tokens: Vec<Token> = Vec::new();
    // connections being served: (task, its transport)
    let mut serving: Vec<(Task<'static>, Shared)> = Vec::new();
    let mut waited = false;
    let mut cancelled_queued = false;
    let mut used_clone = false;
    let mut handed_over = 0usize;

    // invariant after every operation
    let check = |pending: &Vec<Pending>, live: usize, what: &str| -> Result<(), Fail> {
        live_check(live, limit, what)?;
        let queued: Vec<&Pending> = pending.iter().filter(|p| p.polled).collect();
        if live < limit && !queued.is_empty() {
            vensure!(queued.iter().any(|p| p.flag.is_woken()), "c13-stranded-slot", "{what}: {live} of {limit} slots in use, {} request(s) queued, but none of them has been woken", queued.len());
        }
        Ok(())
    };

    for (oi, op) in c.ops.iter().enumerate() {
        let what = format!("op {oi} {op:?}");
        match op {
            Op::Get(r) => {
                let ri = idx(*r, runners.len());
                if let (true, Some(runner)) = (pending.len() < 8, runners[ri].clone()) {
                    pending.push(Pending { fut: Box::pin(async move { runner.get_token().await }), flag: FlagWaker::new(false), polled: false, runner: ri });
                }
            },
            Op::Poll(f) => {
                if !pending.is_empty() {
                    let k = idx(*f, pending.len());
                    let first_poll = !pending[k].polled;
                    let others_queued = pending.iter().enumerate().any(|(i, p)| i != k && p.polled);
                    let free_before = tokens.len() + serving.len() < limit;
                    let p = &mut pending[k];
                    p.flag.take();
                    let waker = Waker::from(p.flag.clone());
                    let mut cx = Context::from_waker(&waker);
                    p.polled = true;
                    match p.fut.as_mut().poll(&mut cx) {
                        Poll::Ready(t) => {
                            vensure!(free_before, "c13-limit-exceeded", "{what}: a token was handed out although all {limit} slots were in use");
                            tokens.push(t);
                            pending.remove(k);
                            handed_over += 1;
                        },
                        Poll::Pending => {
                            waited = true;
                            if first_poll && free_before && !others_queued {
                                vfail!("c13-not-immediate", "{what}: a slot is free ({} of {limit} in use) and nobody is queued, but the request did not complete immediately", tokens.len() + serving.len());
                            }
                        },
                    }
                }
            },
            Op::DropFuture(f) => {
                if !pending.is_empty() {
                    let k = idx(*f, pending.len());
                    if pending[k].polled {
                        cancelled_queued = true;
                    }
                    pending.remove(k);
                }
            },
            Op::DropToken(t) => {
                if !tokens.is_empty() {
                    let k = idx(*t, tokens.len());
                    drop(tokens.remove(k));
                }
            },
            Op::DropTokenInPanic(t) => {
                if !tokens.is_empty() {
                    let k = idx(*t, tokens.len());
                    let tok = tokens.remove(k);
                    let r = std::panic::catch_unwind(std::panic::AssertUnwindSafe(move || {
                        let _held = tok;
                        panic!("handler panic (deliberate, C13)");
                    }));
                    vensure!(r.is_err(), "harness-inconsistent", "deliberate panic did not unwind");
                }
            },
            Op::RunToCompletion(t) => {
                if !tokens.is_empty() {
                    let k = idx(*t, tokens.len());
                    let tok = tokens.remove(k);
                    let world = Arc::new(Mutex::new(World::new(Vec::new(), vec![], vec![], vec![], false, IoFault::None)));
                    let sh = Arc::new(HShared { scripts: vec![], propagate: true, log: Mutex::new(Vec::new()), step: Arc::new(AtomicUsize::new(0)), world: world.clone() });
                    let mut task = Task::new(tok.run(MockReader(world.clone()), MockWriter(world), make_handler(sh)));
                    let (end, _) = run_single(&mut task, 1000, |_| {});
                    vensure!(end == RunEnd::Finished, "c12-hang", "{what}: Token::run on a closed connection did not finish ({end:?})");
                }
            },
            Op::StartRun(t) => {
                if !tokens.is_empty() {
                    let k = idx(*t, tokens.len());
                    let tok = tokens.remove(k);
                    let world: Shared = Arc::new(Mutex::new(World::new(Vec::new(), vec![], vec![], vec![], false, IoFault::None)));
                    world.lock().unwrap().close_at_end = false;
                    let sh = Arc::new(HShared { scripts: vec![], propagate: true, log: Mutex::new(Vec::new()), step: Arc::new(AtomicUsize::new(0)), world: world.clone() });
                    let mut task = Task::new(tok.run(MockReader(world.clone()), MockWriter(world.clone()), make_handler(sh)));
                    let (end, _) = run_single(&mut task, 1000, |_| {});
                    if end == RunEnd::Finished && used_shutdown {
                        // token of a runner that was shut down meanwhile
                    } else {
                        vensure!(end == RunEnd::Idle, "harness-inconsistent", "{what}: a connection with a silent client should be waiting, is {end:?}");
                        serving.push((task, world));
                    }
                }
            },
            Op::FinishRun(i, cancel) => {
                if !serving.is_empty() {
                    let k = idx(*i, serving.len());
                    let (mut task, world) = serving.remove(k);
                    if *cancel {
                        drop(task);
                    } else {
                        {
                            let mut w = world.lock().unwrap();
                            w.close_at_end = true;
                            w.peer_update();
                        }
                        let (end, _) = run_single(&mut task, 1000, |_| {});
                        vensure!(end == RunEnd::Finished, "c12-hang", "{what}: Token::run did not finish after the client closed ({end:?})");
                    }
                }
            },
            Op::CloneRunner(r) => {
                if let (true, Some(src)) = (runners.len() < 4, runners[idx(*r, runners.len())].clone()) {
                    runners.push(Some(Arc::new(Runner::clone(&src))));
                    used_clone = true;
                }
            },
            Op::CloneFrom(r) => {
                if let (true, Some(src)) = (runners.len() < 4, runners[idx(*r, runners.len())].clone()) {
                    let mut other = syncdrv::config(64, limit + 2).async_runner();
                    other.clone_from(&src);
                    runners.push(Some(Arc::new(other)));
                    used_clone = true;
                }
            },
            Op::StartRunInHandler(t) => {
                if !tokens.is_empty() {
                    let k = idx(*t, tokens.len());
                    let tok = tokens.remove(k);
                    // a request whose body never ends: the handler blocks in its read
                    let client = crate::wire::encode_all(&[
                        crate::wire::Rec::new(crate::wire::T_BEGIN, 1, crate::wire::begin_body(1, 1), 0),
                        crate::wire::Rec::new(crate::wire::T_PARAMS, 1, vec![], 0),
                        crate::wire::Rec::new(crate::wire::T_STDIN, 1, vec![7, 7, 7], 0),
                    ]);
                    let n = client.len();
                    let world: Shared = Arc::new(Mutex::new(World::new(client, vec![(n, Cond::Now)], vec![], vec![], false, IoFault::None)));
                    world.lock().unwrap().close_at_end = false;
                    let sh = Arc::new(HShared { scripts: vec![vec![HOp::ReadToEnd { cap: 8 }]], propagate: true, log: Mutex::new(Vec::new()), step: Arc::new(AtomicUsize::new(0)), world: world.clone() });
                    let mut task = Task::new(tok.run(MockReader(world.clone()), MockWriter(world.clone()), make_handler(sh.clone())));
                    let (end, _) = run_single(&mut task, 1000, |_| {});
                    if end == RunEnd::Finished && used_shutdown {
                        // the token came from a runner that has been shut down since: run() returns at once
                    } else {
                        vensure!(end == RunEnd::Idle && sh.log.lock().unwrap().len() == 1, "harness-inconsistent", "{what}: the connection should be parked inside its handler ({end:?})");
                        serving.push((task, world));
                    }
                }
            },
            Op::StartRunInClose(t, keep) => {
                if !tokens.is_empty() {
                    let k = idx(*t, tokens.len());
                    let tok = tokens.remove(k);
                    // the handler reads 3 of the 11 payload bytes that have arrived of a 40-byte
                    // record and returns; close() then needs the rest of that record
                    let mut client = crate::wire::encode_all(&[
                        crate::wire::Rec::new(crate::wire::T_BEGIN, 1, crate::wire::begin_body(1, u8::from(*keep)), 0),
                        crate::wire::Rec::new(crate::wire::T_PARAMS, 1, vec![], 0),
                        crate::wire::Rec::new(crate::wire::T_STDIN, 1, vec![7; 40], 0),
                    ]);
                    client.truncate(client.len() - 29);
                    let n = client.len();
                    let world: Shared = Arc::new(Mutex::new(World::new(client, vec![(n, Cond::Now)], vec![], vec![], false, IoFault::None)));
                    world.lock().unwrap().close_at_end = false;
                    let sh = Arc::new(HShared { scripts: vec![vec![HOp::Read(3), HOp::Return(crate::aio::Status::Complete(0))]], propagate: true, log: Mutex::new(Vec::new()), step: Arc::new(AtomicUsize::new(0)), world: world.clone() });
                    let mut task = Task::new(tok.run(MockReader(world.clone()), MockWriter(world.clone()), make_handler(sh.clone())));
                    let (end, _) = run_single(&mut task, 1000, |_| {});
                    if end == RunEnd::Finished && used_shutdown {
                        // the token came from a runner that has been shut down since: run() returns at once
                    } else {
                        let returned = sh.log.lock().unwrap().first().is_some_and(|i| i.returned.is_some());
                        vensure!(end == RunEnd::Idle && returned, "harness-inconsistent", "{what}: the connection should be parked in close() after its handler returned ({end:?})");
                        serving.push((task, world));
                    }
                }
            },
            Op::Shutdown(r) => {
                let ri = idx(*r, runners.len());
                if runners.iter().filter(|x| x.is_some()).count() >= 2 {
                    if let Some(arc) = runners[ri].take() {
                        // queued requests on this runner are abandoned with it
                        pending.retain(|p| p.runner != ri);
                        match Arc::try_unwrap(arc) {
                            Ok(runner) => {
                                let mut f: Pin<Box<dyn Future<Output = ()>>> = Box::pin(runner.shutdown());
                                let flag = FlagWaker::new(false);
                                let waker = Waker::from(flag);
                                let mut cx = Context::from_waker(&waker);
                                let _ = f.as_mut().poll(&mut cx);
                                shutdowns.push(f);
                                used_shutdown = true;
                            },
                            Err(arc) => runners[ri] = Some(arc),
                        }
                    }
                }
            },
        }
        // connection tasks that were woken (shutdown, client close) run on; finished ones free their slot
        let mut k = 0;
        while k < serving.len() {
            if serving[k].0.flag.is_woken() {
                let (end, _) = run_single(&mut serving[k].0, 1000, |_| {});
                if end == RunEnd::Finished {
                    serving.remove(k);
                    continue;
                }
            }
            k += 1;
        }
        check(&pending, tokens.len() + serving.len(), &what)?;
    }
    // drain: every request must eventually get a token as slots are freed
    let mut rounds = 0;
    while !pending.is_empty() {
        rounds += 1;
        vensure!(rounds < 200, "c13-starved", "{} request(s) never obtained a token although slots were freed repeatedly", pending.len());
        // poll everything that is runnable: never-polled futures and woken ones
        let mut progressed = false;
        let mut k = 0;
        while k < pending.len() {
            let p = &mut pending[k];
            if !p.polled || p.flag.is_woken() {
                p.flag.take();
                let waker = Waker::from(p.flag.clone());
                let mut cx = Context::from_waker(&waker);
                p.polled = true;
                if let Poll::Ready(t) = p.fut.as_mut().poll(&mut cx) {
                    tokens.push(t);
                    pending.remove(k);
                    handed_over += 1;
                    progressed = true;
                    live_check(tokens.len() + serving.len(), limit, "drain")?;
                    continue;
                }
            }
            k += 1;
        }
        check(&pending, tokens.len() + serving.len(), "drain")?;
        if !progressed {
            if !tokens.is_empty() {
                drop(tokens.remove(0));
            } else if !serving.is_empty() {
                drop(serving.remove(0));
            } else {
                vfail!("c13-stranded-slot", "drain: all slots are free, {} request(s) are queued, none is runnable", pending.len());
            }
            check(&pending, tokens.len() + serving.len(), "drain after drop")?;
        }
    }
    Ok(Outcome::new(waited && handed_over > limit)
        .label_if(cancelled_queued, "queued-request-cancelled")
        .label_if(used_clone, "cloned-runner")
        .label_if(c.ops.iter().any(|o| matches!(o, Op::DropTokenInPanic(_))), "drop-during-unwind")
        .label_if(c.ops.iter().any(|o| matches!(o, Op::RunToCompletion(_))), "run-to-completion")
        .label_if(c.ops.iter().any(|o| matches!(o, Op::StartRun(_) | Op::StartRunInHandler(_) | Op::StartRunInClose(..))), "connection-being-served")
        .label_if(c.ops.iter().any(|o| matches!(o, Op::StartRunInClose(..))), "connection-parked-in-close")
        .label_if(used_shutdown, "runner-shut-down-mid-history"))
}

// ---------------------------------------------------------------------------------------------
// real threads (samples interleavings; the oracle is timing-independent)

#[derive(Clone, Debug, Serialize, Deserialize)]
pub struct Stress {
    pub limit: u8,
    pub threads: u8,
    pub iters: u32,
    pub clones: bool,
}

struct ThreadWaker(std::thread::Thread, AtomicBool);
impl Wake for ThreadWaker {
    fn wake(self: Arc<Self>) {
        self.wake_by_ref();
    }
    fn wake_by_ref(self: &Arc<Self>) {
        self.1.store(true, Ordering::SeqCst);
        self.0.unpark();
    }
}

/// `Err(true)`: the future was not woken although it can complete (lost wake-up, decided by
/// polling it anyway after a long wait); `Err(false)`: still cannot complete (slow system).
fn block_on<T>(mut fut: Pin<Box<dyn Future<Output = T> + '_>>, deadline: std::time::Instant) -> Result<T, bool> {
    let tw = Arc::new(ThreadWaker(std::thread::current(), AtomicBool::new(false)));
    let waker = Waker::from(tw.clone());
    let mut cx = Context::from_waker(&waker);
    loop {
        if let Poll::Ready(v) = fut.as_mut().poll(&mut cx) {
            return Ok(v);
        }
        while !tw.1.swap(false, Ordering::SeqCst) {
            if std::time::Instant::now() > deadline {
                // no wake-up for a very long time: is there really nothing to wake up for?
                std::thread::sleep(std::time::Duration::from_millis(200));
                if tw.1.swap(false, Ordering::SeqCst) {
                    break; // the wake-up was merely late
                }
                return Err(fut.as_mut().poll(&mut cx).is_ready());
            }
            std::thread::park_timeout(std::time::Duration::from_millis(50));
        }
    }
}

/// Set when a configuration ran into its deadline without a decidable lost wake-up (threads
/// blocked behind each other): the remaining configurations would only repeat the wait.
static STRESS_STALLED: AtomicBool = AtomicBool::new(false);

fn test_stress(c: &Stress) -> TestResult {
    if STRESS_STALLED.load(Ordering::SeqCst) {
        return Ok(Outcome::new(false).label("skipped-after-a-stalled-configuration"));
    }
    let limit = (c.limit as usize).clamp(1, 4);
    let cfg = syncdrv::config(64, limit);
    let base = Arc::new(cfg.async_runner());
    let live = Arc::new(AtomicUsize::new(0));
    let max_seen = Arc::new(AtomicUsize::new(0));
    let stuck = Arc::new(AtomicBool::new(false));
    // generous: only a lost wake-up can make a thread miss this deadline
    let deadline = std::time::Instant::now() + std::time::Duration::from_secs(120);
    let handles: Vec<_> = (0..c.threads.clamp(2, 16))
        .map(|t| {
            let runner = if c.clones && t % 2 == 1 { Arc::new(Runner::clone(&base)) } else { base.clone() };
            let (live, max_seen, stuck) = (live.clone(), max_seen.clone(), stuck.clone());
            let iters = c.iters;
            std::thread::spawn(move || {
                for i in 0..iters {
                    let tok = match block_on(Box::pin(runner.get_token()), deadline) {
                        Ok(t) => t,
                        Err(lost) => {
                            // only a request that could complete but was never woken is a violation
                            if lost {
                                stuck.store(true, Ordering::SeqCst);
                            }
                            STRESS_STALLED.store(true, Ordering::SeqCst);
                            return;
                        },
                    };
                    let now = live.fetch_add(1, Ordering::SeqCst) + 1;
                    max_seen.fetch_max(now, Ordering::SeqCst);
                    if (i + t as u32) % 3 == 0 {
                        std::thread::yield_now();
                    }
                    live.fetch_sub(1, Ordering::SeqCst);
                    drop(tok);
                }
            })
        })
        .collect();
    for h in handles {
        let _ = h.join();
    }
    vensure!(max_seen.load(Ordering::SeqCst) <= limit, "c13-limit-exceeded", "{} tokens were alive at once with max_conns = {limit}", max_seen.load(Ordering::SeqCst));
    vensure!(!stuck.load(Ordering::SeqCst), "c13-stranded-slot", "a queued request was not woken for 120 s although polling it anyway yields a token (lost wake-up)");
    Ok(Outcome::new(true).label_if(c.clones, "clones"))
}

// ---------------------------------------------------------------------------------------------
// long uncontended runs

#[derive(Clone, Debug, Serialize, Deserialize)]
pub struct LongRun {
    pub limit: u8,
    /// tokens kept for the whole run (below the limit)
    pub held: u8,
    pub cycles: u16,
    /// every n-th request goes through a fresh clone of the runner (0 = never)
    pub clone_every: u8,
    /// every n-th token is dropped only after the next one was obtained (0 = never; needs two free slots)
    pub overlap_every: u8,
}

/// "A request for a token completes immediately when a slot is free and no earlier request is
/// queued" - also the 129th, the 1000th ... in a row on the same runner.
fn test_long(c: &LongRun) -> TestResult {
    let limit = c.limit.max(1) as usize;
    let held_n = (c.held as usize).min(limit - 1);
    let cfg = syncdrv::config(64, limit);
    let runner = cfg.async_runner();
    let mut held = Vec::new();
    let mut carry: Option<Token> = None;
    for i in 0..(held_n + c.cycles as usize) {
        let in_use = held.len() + carry.is_some() as usize;
        let r2;
        let r: &Runner = if c.clone_every != 0 && i % c.clone_every as usize == c.clone_every as usize - 1 {
            r2 = runner.clone();
            &r2
        } else {
            &runner
        };
        let mut f: Pin<Box<dyn Future<Output = Token> + '_>> = Box::pin(r.get_token());
        let flag = FlagWaker::new(false);
        let waker = Waker::from(flag.clone());
        let mut cx = Context::from_waker(&waker);
        let tok = match f.as_mut().poll(&mut cx) {
            Poll::Ready(t) => t,
            Poll::Pending => vfail!("c13-not-immediate", "request #{i} in a row on one runner: {in_use} of {limit} slots in use, nobody queued, but get_token did not complete on its first poll"),
        };
        drop(f);
        if held.len() < held_n {
            held.push(tok);
        } else if c.overlap_every != 0 && i % c.overlap_every as usize == 0 && in_use + 1 < limit {
            carry = Some(tok); // replaces (drops) the previous carried token after this one exists
        } else {
            carry = None;
            drop(tok);
        }
        vensure!(held.len() + carry.is_some() as usize <= limit, "c13-limit-exceeded", "more tokens than the limit");
    }
    Ok(Outcome::new(c.cycles >= 130).label_if(c.clone_every != 0, "through-clones").label_if(c.cycles >= 1000, ">=1000-in-a-row"))
}

fn op() -> BoxedStrategy<Op> {
    prop_oneof![
        5 => any::<u16>().prop_map(Op::Get),
        6 => any::<u16>().prop_map(Op::Poll),
        2 => any::<u16>().prop_map(Op::DropFuture),
        4 => any::<u16>().prop_map(Op::DropToken),
        1 => any::<u16>().prop_map(Op::DropTokenInPanic),
        1 => any::<u16>().prop_map(Op::RunToCompletion),
        2 => any::<u16>().prop_map(Op::StartRun),
        2 => (any::<u16>(), any::<bool>()).prop_map(|(i, c)| Op::FinishRun(i, c)),
        1 => any::<u16>().prop_map(Op::CloneRunner),
        1 => any::<u16>().prop_map(Op::StartRunInHandler),
        1 => (any::<u16>(), any::<bool>()).prop_map(|(i, k)| Op::StartRunInClose(i, k)),
        1 => any::<u16>().prop_map(Op::Shutdown),
        1 => any::<u16>().prop_map(Op::CloneFrom),
    ]
    .boxed()
}

pub fn property() -> Property {
    let stress: Box<dyn Sub> = Box::new(EnumSub::<Stress> {
        name: "threads",
        rule: "real threads (4..16) acquiring, briefly holding and dropping tokens on a runner and its clones for a fixed number of iterations; a counter incremented after acquisition and decremented before the drop must never exceed max_conns, and every thread must terminate; samples interleavings only (see DESIGN.md section 7); non-trivial = every configuration",
        exhaustive: Box::new(|_| false),
        guard_each: true,
        test: Box::new(test_stress),
        body: Box::new(|tier, shard, _n, sink| {
            // run sequentially on shard 0: each configuration spawns its own threads
            if shard != 0 {
                return;
            }
            let iters = tier.pick(1500u32, 20_000u32);
            for (limit, threads, clones) in [(1u8, 4u8, false), (1, 8, true), (2, 8, true), (3, 16, true), (4, 16, false), (2, 16, true)] {
                if !sink.check(Stress { limit, threads, iters, clones }) {
                    return;
                }
            }
        }),
    });
    Property {
        id: "C13",
        level: "exploration",
        assumptions: vec![
            "model: a counter of live tokens and the set of polled-pending requests with their wake flags; invariants are evaluated between operations, never inside one",
            "a 'queued' request is one whose future has been polled and returned Pending; a never-polled future holds nothing",
            "thread interleavings inside async-lock / event-listener are sampled by the real-thread sub-check, not enumerated (a property-based harness cannot schedule their atomics)",
        ],
        subs: vec![
            prop_sub(
                "histories",
                "limits 1..4, 1..3 runners (clones share the limit), histories of get_token / poll / drop-pending-request / drop-token / drop-token-while-unwinding / run-to-completion / start-serving (idle or parked inside a handler) / finish-serving (client closes or future dropped) / clone / clone_from / shutdown-of-one-runner operations; a token counts as live while it is held or while its connection is being served; after every operation: live tokens <= limit, a first poll with a free slot and nobody queued completes immediately, free slot and queued requests implies one of them has been woken; final drain: every request obtains a token as slots are freed; non-trivial = some request had to wait and more tokens than the limit were handed out over time; distinct = hash of the case",
                500_000,
                10_000_000,
                |_| boxed((1u8..=4, proptest::collection::vec(op(), 1..40)).prop_map(|(limit, ops)| Case { limit, ops })),
                test,
            ),
            prop_sub(
                "long_runs",
                "up to 3000 get_token requests in a row on one runner (limits 1..4, 0..limit-1 tokens held throughout, optionally every n-th request through a fresh clone, optionally overlapping lifetimes): with a free slot and nobody queued every single one must complete on its first poll; non-trivial = at least 130 requests in a row; distinct = hash of the case",
                3_000,
                100_000,
                |_| boxed((1u8..=4, 0u8..=3, prop_oneof![3 => 130u16..=600, 1 => 1u16..=129, 1 => 600u16..=3000], prop_oneof![2 => Just(0u8), 1 => 1u8..=9], prop_oneof![1 => Just(0u8), 1 => 1u8..=5]).prop_map(|(limit, held, cycles, clone_every, overlap_every)| LongRun { limit, held, cycles, clone_every, overlap_every })),
                test_long,
            ),
            stress,
        ],
    }
}
