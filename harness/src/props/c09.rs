//! C09 — async reads deliver exactly the active stream; output gated on the final stream.

use std::collections::BTreeMap;
use std::future::Future;
use std::pin::Pin;
use std::sync::{Arc, Mutex};
use std::task::{Context, Poll, Waker};

use futures_util::io::{AsyncBufRead, AsyncRead, AsyncWrite};
use proptest::prelude::*;
use serde::{Deserialize, Serialize};

use fastcgi_server::async_io::Request;

use crate::aio::*;
use crate::conn;
use crate::engine::*;
use crate::model;
use crate::props::c02;
use crate::props::c10::stream_parser_for;
use crate::syncdrv::{self, rt};
use crate::traffic::{self, BodySpec};
use crate::wire;
use crate::{vensure, vfail};

#[derive(Clone, Debug, Serialize, Deserialize, PartialEq, Eq, Hash)]
pub enum Op {
    /// poll_read with a buffer of this size
    Read(u16),
    /// poll_read with a buffer at or beyond the 16-bit limits: 65536, 131072, 70000, 65537, 196608
    ReadBig(u8),
    /// poll_read_vectored with slices of a and b bytes, optionally preceded / separated by empty
    /// slices (bits 0, 1): the reported bytes fill the slices in order, nothing else is touched,
    /// and 0 means end of stream only if some slice had room
    ReadVectored(u16, u16, u8),
    /// poll_fill_buf, then consume min(k, available)
    Fill(u16),
    /// select the role's next input stream (ignored when there is none)
    Next,
    /// poll `writeable()`: to completion (None) or at most k times and then drop it (cancellation)
    Writeable(Option<u8>),
    /// if the request is writeable: take a stdout writer and write 3 bytes
    Write,
}

#[derive(Clone, Debug, Serialize, Deserialize)]
pub struct Case {
    pub id: u16,
    pub role: u16,
    pub body: BodySpec,
    pub ops: Vec<Op>,
    pub read_script: Vec<RStep>,
    pub write_script: Vec<WStep>,
    pub vectored: bool,
    pub buf: u32,
}

struct Drv {
    flag: Arc<FlagWaker>,
    polls: usize,
    pendings: usize,
}

impl Drv {
    /// Polls `f` until it is ready, honouring the waker contract: a Pending result must be
    /// followed by a wake-up, otherwise the task would sleep forever.
    fn run<T>(&mut self, what: &str, limit: Option<usize>, mut f: impl FnMut(&mut Context<'_>) -> Poll<T>) -> Result<Option<T>, Fail> {
        let waker = Waker::from(self.flag.clone());
        let mut cx = Context::from_waker(&waker);
        let mut n = 0usize;
        loop {
            self.flag.take();
            self.polls += 1;
            vensure!(self.polls < 3_000_000, "c09-spin", "{what}: poll budget exhausted");
            match f(&mut cx) {
                Poll::Ready(v) => return Ok(Some(v)),
                Poll::Pending => {
                    self.pendings += 1;
                    n += 1;
                    if limit.is_some_and(|l| n >= l) {
                        return Ok(None);
                    }
                    vensure!(self.flag.is_woken(), "c09-lost-wakeup", "{what} returned Pending without arranging a wake-up although input/output can make progress");
                },
            }
        }
    }
}

fn test(c: &Case) -> TestResult {
    let need = c.body.noise.iter().map(|(_, n)| n.longest_pair()).max().unwrap_or(0) + 13;
    let cfg = syncdrv::config((c.buf as usize).max(need), 2);
    let sp = stream_parser_for(&cfg, c.id, c.role, 0)?;
    let body = BodySpec { streams: c.body.streams.clone(), noise: c.body.noise.iter().filter(|(_, n)| conn::conn_noise_ok(n)).cloned().collect() };
    let recs = body.build(c.id);
    let input = wire::encode_all(&recs);
    let sm = model::stream_model(c.id, c.role, &recs, 2);
    let ends = c02::truth_offsets(&sm, &recs, 0);
    let world = Arc::new(Mutex::new(World::new(input.clone(), vec![(input.len(), Cond::Now)], c.read_script.clone(), c.write_script.clone(), c.vectored, IoFault::None)));
    let mut req = Request::new(sp, MockReader(world.clone()), MockWriter(world.clone()));
    let order = sm.order.clone();
    let mut d = Drv { flag: FlagWaker::new(true), polls: 0, pendings: 0 };
    let mut delivered: BTreeMap<u8, Vec<u8>> = BTreeMap::new();
    let mut eof: BTreeMap<u8, bool> = BTreeMap::new();
    let mut used_read = false;
    let mut used_fill = false;
    let mut wrote = 0usize;
    let mut cancelled_wait = false;

    macro_rules! gate {
        () => {{
            let wr = req.is_writeable();
            let act = req.active_stream().map(u8::from);
            if wr && order.len() >= 2 {
                // Every stream before the last must be over *on the wire*: its end record (or the
                // first record of a later stream) must have been handed to the request - whether
                // the handler read the stream to its end or selected a later one and had the
                // parser skip past it. Selecting alone does not make the client's Stdin end
                // (seeded change C09-A); which stream is active at that moment is not fixed by
                // the statement (benign change C09/benign3 of round 1).
                let read_pos = world.lock().unwrap().read_pos;
                let _ = act;
                for s in order[..order.len() - 1].iter() {
                    match ends.get(s) {
                        Some(&at) => vensure!(read_pos >= at, "c09-writeable-early", "request reports writeable after {read_pos} input bytes, but stream {s} only ends at byte {at} of the client's data"),
                        None => vfail!("c09-writeable-early", "request reports writeable although stream {s} never ends"),
                    }
                }
            }
            if order.len() <= 1 {
                vensure!(wr, "c09-not-writeable", "role with <= 1 input stream is not writeable");
            }
        }};
    }
    gate!();
    for (oi, op) in c.ops.iter().enumerate() {
        let active = req.active_stream().map(u8::from);
        match op {
            Op::Read(_) | Op::ReadBig(_) => {
                let cap: usize = match op {
                    Op::Read(c) => *c as usize,
                    Op::ReadBig(k) => [65536usize, 131072, 70000, 65537, 196608][*k as usize % 5],
                    _ => unreachable!(),
                };
                let cap = &cap;
                used_read = true;
                let mut buf = vec![0xEEu8; *cap];
                let r = d.run("poll_read", None, |cx| Pin::new(&mut req).poll_read(cx, &mut buf))?.unwrap();
                match r {
                    Ok(n) => {
                        vensure!(n <= buf.len() && buf[n..].iter().all(|&b| b == 0xEE), "c09-read-overrun", "op {oi}: poll_read reported {n} bytes but touched more of the buffer");
                        note_data(&mut delivered, &mut eof, active, &buf[..n], *cap > 0, &sm, oi)?;
                    },
                    Err(e) => vfail!("c09-read-error", "op {oi}: poll_read failed on well-formed input: {e}"),
                }
            },
            Op::ReadVectored(a, b, pat) => {
                used_read = true;
                let mut bufs: Vec<Vec<u8>> = Vec::new();
                if pat & 1 == 1 {
                    bufs.push(Vec::new());
                }
                bufs.push(vec![0xEEu8; *a as usize % 700]);
                if pat & 2 == 2 {
                    bufs.push(Vec::new());
                }
                bufs.push(vec![0xEEu8; *b as usize % 700]);
                let total: usize = bufs.iter().map(Vec::len).sum();
                let r = {
                    let mut slices: Vec<std::io::IoSliceMut<'_>> = bufs.iter_mut().map(|v| std::io::IoSliceMut::new(&mut v[..])).collect();
                    d.run("poll_read_vectored", None, |cx| Pin::new(&mut req).poll_read_vectored(cx, &mut slices))?.unwrap()
                };
                match r {
                    Ok(n) => {
                        let flat: Vec<u8> = bufs.concat();
                        vensure!(n <= total && flat[n..].iter().all(|&x| x == 0xEE), "c09-read-overrun", "op {oi}: poll_read_vectored reported {n} bytes but the slices behind them were touched (or n exceeds their {total} bytes)");
                        note_data(&mut delivered, &mut eof, active, &flat[..n], total > 0, &sm, oi)?;
                    },
                    Err(e) => vfail!("c09-read-error", "op {oi}: poll_read_vectored failed on well-formed input: {e}"),
                }
            },
            Op::Fill(k) => {
                used_fill = true;
                let r = d.run("poll_fill_buf", None, |cx| match Pin::new(&mut req).poll_fill_buf(cx) {
                    Poll::Ready(Ok(b)) => Poll::Ready(Ok(b.to_vec())),
                    Poll::Ready(Err(e)) => Poll::Ready(Err(e)),
                    Poll::Pending => Poll::Pending,
                })?
                .unwrap();
                match r {
                    Ok(avail) => {
                        // everything visible in the buffer must already be correct stream content
                        check_visible(&delivered, active, &avail, &sm, oi)?;
                        let take = avail.len().min(*k as usize);
                        note_data(&mut delivered, &mut eof, active, &avail[..take], avail.is_empty(), &sm, oi)?;
                        if avail.is_empty() {
                            if let Some(s) = active {
                                eof.insert(s, true);
                            }
                        }
                        Pin::new(&mut req).consume(take);
                    },
                    Err(e) => vfail!("c09-read-error", "op {oi}: poll_fill_buf failed on well-formed input: {e}"),
                }
            },
            Op::Next => {
                if let Some(s) = active {
                    if let Some(&next) = order.iter().position(|&x| x == s).and_then(|p| order.get(p + 1)) {
                        req.set_stream(rt(next));
                        vensure!(req.active_stream().map(u8::from) == Some(next), "c09-set-stream", "active stream {:?} after selecting {next}", req.active_stream());
                    }
                }
            },
            Op::Writeable(limit) => {
                let done = {
                    let mut fut = Box::pin(req.writeable());
                    d.run("writeable()", limit.map(|l| l as usize + 1), |cx| fut.as_mut().poll(cx))?
                };
                match done {
                    Some(Ok(())) => vensure!(req.is_writeable(), "c09-not-writeable", "op {oi}: writeable() completed but is_writeable() is false"),
                    Some(Err(e)) => vfail!("c09-read-error", "op {oi}: writeable() failed on well-formed input: {e}"),
                    // cancelled: the abandoned future may have left the request in the middle of
                    // flushing a reply, holding the output lock (second observation in DESIGN
                    // section 6); like the connection handler scripts, this sequence does not
                    // write through a StreamWriter afterwards
                    None => cancelled_wait = true,
                }
                // (that writeable() leaves the final stream selected is how the crate implements
                // it; the statement does not demand it, so it is not checked)
            },
            Op::Write => {
                if req.is_writeable() && !cancelled_wait {
                    let mut w = req.output_stream(rt(wire::T_STDOUT));
                    let data = [0x42u8, oi as u8, 0x43];
                    let r = d.run("poll_write", None, |cx| Pin::new(&mut w).poll_write(cx, &data))?.unwrap();
                    vensure!(matches!(r, Ok(3)), "c10-write-count", "op {oi}: writing 3 bytes returned {r:?}");
                    wrote += 1;
                }
            },
        }
        gate!();
    }
    drop(req);
    // the log: management replies (prefix of what is owed) and our 3-byte stdout records, intact
    let w = world.lock().unwrap();
    // (a reply whose flush was still in progress when the last operation returned or was
    // cancelled may be cut off: the caller dropped the request)
    let (recs_out, _used) = wire::decode_log(&w.log).map_err(|e| Fail::new("conn-log-malformed", e))?;
    let mut mgmt = Vec::new();
    let mut stdout_recs = 0;
    for r in &recs_out {
        match wire::classify_out(r).map_err(|e| Fail::new("conn-log-malformed", e))? {
            wire::Reply::Stream { ty, id, payload } => {
                vensure!(ty == wire::T_STDOUT && id == c.id && payload.len() == 3 && payload[0] == 0x42 && payload[2] == 0x43, "c10-record-content", "unexpected output record at {}", r.at);
                stdout_recs += 1;
            },
            other => mgmt.push(other),
        }
    }
    vensure!(stdout_recs == wrote, "c10-missing-record", "{wrote} writes completed, {stdout_recs} records on the log");
    model::match_replies_prefix(&sm.replies, &mgmt).map_err(|e| Fail::new("conn-mgmt-replies", e))?;
    Ok(Outcome::new(used_read && used_fill && w.saw_read_pending && (w.saw_write_pending || mgmt.is_empty()) && d.pendings >= 1)
        .label_if(used_read && used_fill, "mixed-direct-and-buffered")
        .label_if(w.saw_read_pending, "read-pending")
        .label_if(w.saw_write_pending && !mgmt.is_empty(), "reply-flushed-against-pending-writer")
        .label_if(eof.values().any(|&e| e), "saw-eof")
        .label_if(order.len() == 2, "two-streams")
        .label_if(c.ops.iter().any(|o| matches!(o, Op::Writeable(Some(_)))), "writeable-cancelled")
        .label_if(c.ops.iter().any(|o| matches!(o, Op::Read(0))), "zero-length-read"))
}

/// Records `data` as delivered for the active stream and checks it against the content model.
fn note_data(
    delivered: &mut BTreeMap<u8, Vec<u8>>,
    eof: &mut BTreeMap<u8, bool>,
    active: Option<u8>,
    data: &[u8],
    zero_means_eof: bool,
    sm: &model::StreamModel,
    oi: usize,
) -> Result<(), Fail> {
    let Some(s) = active else {
        vensure!(data.is_empty(), "c09-data-without-stream", "op {oi}: {} bytes delivered although the role has no input stream", data.len());
        return Ok(());
    };
    let want = sm.content.get(&s).ok_or_else(|| Fail::new("harness-inconsistent", "active stream outside the role"))?;
    let d = delivered.entry(s).or_default();
    if !data.is_empty() {
        vensure!(eof.get(&s) != Some(&true), "c09-eof-not-persistent", "op {oi}: stream {s} delivered {} bytes after reporting end-of-file", data.len());
        vensure!(d.len() + data.len() <= want.len() && want[d.len()..d.len() + data.len()] == *data, "c09-content", "op {oi}: bytes delivered for stream {s} at offset {} differ from what the client sent (first difference at +{:?}; stream has {} bytes)", d.len(), data.iter().zip(want[d.len().min(want.len())..].iter()).position(|(a, b)| a != b), want.len());
        d.extend_from_slice(data);
    } else if zero_means_eof {
        vensure!(d.len() == want.len(), "c09-early-eof", "op {oi}: end-of-file on stream {s} after {} of {} bytes", d.len(), want.len());
        eof.insert(s, true);
    }
    Ok(())
}

fn check_visible(delivered: &BTreeMap<u8, Vec<u8>>, active: Option<u8>, avail: &[u8], sm: &model::StreamModel, oi: usize) -> Result<(), Fail> {
    let Some(s) = active else {
        vensure!(avail.is_empty(), "c09-data-without-stream", "op {oi}: fill_buf shows {} bytes although no stream is active", avail.len());
        return Ok(());
    };
    let want = &sm.content[&s];
    let off = delivered.get(&s).map_or(0, Vec::len);
    vensure!(off + avail.len() <= want.len() && want[off..off + avail.len()] == *avail, "c09-content", "op {oi}: fill_buf shows {} bytes for stream {s} at offset {off} that differ from the client's data", avail.len());
    Ok(())
}

fn op() -> BoxedStrategy<Op> {
    prop_oneof![
        5 => prop_oneof![1 => Just(0u16), 3 => 1u16..=9, 3 => 1u16..=700, 1 => Just(u16::MAX)].prop_map(Op::Read),
        1 => any::<u8>().prop_map(Op::ReadBig),
        1 => (prop_oneof![Just(0u16), 1u16..=9, 1u16..=699], prop_oneof![1u16..=9, 1u16..=699], 0u8..4).prop_map(|(a, b, p)| Op::ReadVectored(a, b, p)),
        5 => prop_oneof![1 => Just(0u16), 3 => 1u16..=9, 3 => 1u16..=700, 1 => Just(u16::MAX)].prop_map(Op::Fill),
        1 => Just(Op::Next),
        1 => prop::option::weighted(0.5, 0u8..4).prop_map(Op::Writeable),
        1 => Just(Op::Write),
    ]
    .boxed()
}

pub fn case_strategy() -> BoxedStrategy<Case> {
    prop_oneof![5 => Just(1u16), 1 => Just(2u16), 5 => Just(3u16)]
        .prop_flat_map(|role| {
            (
                traffic::req_id(),
                Just(role),
                (traffic::body_spec(role, 0, 40, true), proptest::collection::vec((any::<u16>(), conn::mgmt_noise(40)), 0..4)).prop_map(|(mut b, n)| {
                    b.noise = n;
                    b
                }),
                proptest::collection::vec(op(), 1..24),
                conn::read_script(),
                conn::write_script(),
                any::<bool>(),
                c02::buf_pick(),
            )
        })
        .prop_map(|(id, role, body, ops, read_script, write_script, vectored, buf)| Case { id, role, body, ops, read_script, write_script, vectored, buf })
        .boxed()
}

pub fn property() -> Property {
    Property {
        id: "C09",
        level: "exploration",
        assumptions: vec![
            "the Request is polled directly; a Pending result must be accompanied by a wake-up (the harness refuses to re-poll otherwise), so lost wake-ups are decided, not timed out",
            "a compliant client: every input stream terminated, streams in role order; all input is available from the start but delivered through scripted short / not-ready reads",
            "writeable-gate oracle: writeable implies that the reader has handed out the bytes up to the end record of every stream before the last",
        ],
        subs: vec![prop_sub(
            "reads",
            "requests of all roles with generated stream contents and management records mid-stream x sequences of poll_read(len 0..n) / poll_fill_buf+consume(k) / set_stream(next) / writeable() (to completion or cancelled after k polls) / output_stream+write x reader scripts (1..n bytes, Pending) x writer scripts (1..n bytes, Pending); delivered bytes must equal the active stream's content in order, end-of-file only at the true end and persistent, nothing from other streams, writeable gate, log intact; non-trivial = direct and buffered reads mixed with >=1 not-ready result from the reader (and from the writer when replies were flushed); distinct = hash of the case",
            300_000,
            6_000_000,
            |_| case_strategy(),
            test,
        ),
        prop_sub(
            "reads_beside_writers",
            "the C10 harness seen from the reader: Request::poll_read (buffer sizes 0..16, abandoned after k not-ready results in some cases) on one task while 1..3 StreamWriters on other tasks hold the output lock across Pending and short writes, management records ahead of and between the stdin records so that replies must be flushed under contention; every byte delivered must be the next byte of the stdin stream, no end-of-file before the stream ends, the reader is woken when the lock is released; non-trivial as in C10 (>=2 writers and the lock contended mid-record); distinct = hash of the case",
            100_000,
            2_000_000,
            |_| crate::props::c10::case_strategy(),
            crate::props::c10::test,
        )],
    }
}
