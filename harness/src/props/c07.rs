//! C07 — per request: one handler call, one correct EndRequest, correct connection reuse.

use proptest::prelude::*;

use crate::aio::IoFault;
use crate::conn::{self, ConnCase};
use crate::engine::*;

fn test(c: &ConnCase) -> TestResult {
    let b = conn::build(c);
    let m = conn::conn_model(c, &b)?;
    let r = conn::run_conn(c, &b, IoFault::None, |_, _| None)?;
    if std::env::var_os("VERIF_DEBUG").is_some() {
        conn::dump(&b, &r);
    }
    let v = conn::check_clean_run(c, &b, &m, &r)?;
    let w = r.world.lock().unwrap();
    Ok(Outcome::new(v.served >= 2 && v.short_reads >= 1 && v.short_writes >= 1)
        .label_if(v.served >= 2, "connection-reused")
        .label_if(v.served < c.reqs.len(), "connection-closed-early")
        .label_if(w.saw_read_pending, "read-pending")
        .label_if(w.saw_write_pending, "write-pending")
        .label_if(c.vectored, "vectored-writer")
        .label_if(r.invocations.iter().any(|i| i.reads.values().any(|v| !v.is_empty())), "handler-read-input")
        .label_if(r.invocations.iter().any(|i| !i.writes.is_empty()), "handler-wrote-output")
        .label_if(c.reqs.iter().any(|q| conn::script_returns(&q.handler).is_err()), "handler-returned-error")
        .label_if(!b.queries.is_empty(), "management-queries"))
}

pub fn property() -> Property {
    Property {
        id: "C07",
        level: "exploration",
        assumptions: vec![
            "closed-loop client with one outstanding request: request i+1 (and anything after request i's own records) is released only after EndRequest i is on the byte log; the peer closes the connection after its last record",
            "deterministic single-threaded executor that polls the connection task only when its waker fired; transports with scripted short reads/writes and spurious Pending results (self-waking)",
            "oracle = connection model of DESIGN.md section 2.1 on the independently decoded byte log and the handler log; where a management reply sits relative to a request's records is not constrained",
            "interleaved records are restricted to those a compliant single-request client may send (GetValues, unknown types, foreign-id junk, BeginRequest with unknown role)",
        ],
        subs: vec![prop_sub(
            "connections",
            "1..4 requests per connection (all roles, flag bytes, C01/C02-style content, interleaved management/unknown/foreign records) x handler scripts (read / read-to-end / fill_buf+consume / next stream / writeable / write / write_all / flush, every ExitStatus variant, I/O error returns) x reader scripts (1..n bytes, Pending) x writer scripts (1..n bytes, Pending, vectored or not) x buffer sizes; non-trivial = >=2 requests served on one connection with >=1 short read and >=1 short write; distinct = hash of the case",
            100_000,
            2_000_000,
            |_| conn::conn_case(4, true, Just(false).boxed()),
            test,
        )],
    }
}
