//! C05 — no input byte is lost, duplicated or reordered across parser hand-offs.

use proptest::prelude::*;
use serde::{Deserialize, Serialize};

use fastcgi_server::parser::request;

use crate::engine::*;
use crate::gen::{self, Chunking};
use crate::model::{self, PreResult};
use crate::props::c02::{self, Act};
use crate::syncdrv::{self, check_request, run_request, StreamDrv, Truth};
use crate::traffic::{self, BodySpec, Noise, Phase, PreambleSpec};
use crate::wire::{self, Rec};
use crate::{vensure, vfail};

#[derive(Clone, Debug, Serialize, Deserialize)]
pub enum Reader {
    /// read every stream to its end following the schedule; stop at the held final header
    ReadAll { schedule: Vec<Act> },
    /// read at most `first` bytes into a caller buffer, then give up the request the way
    /// `Request::close` does: select no stream and parse on to the next record boundary
    Close { first: u16, ch: Chunking },
}

#[derive(Clone, Debug, Serialize, Deserialize)]
pub struct Req {
    pub pre: PreambleSpec,
    pub pre_noise: Vec<(u16, Noise)>,
    pub body: BodySpec,
    pub pre_chunk: Chunking,
    pub reader: Reader,
}

#[derive(Clone, Debug, Serialize, Deserialize)]
pub struct Case {
    pub reqs: Vec<Req>,
    pub buf: u32,
    pub max_conns: u32,
}

/// Body noise must not contain records that would start a request when seen while idle
/// (a compliant client does not send them): defuse BeginRequest records.
fn defuse(n: &Noise) -> Noise {
    match n {
        Noise::ForeignBegin { id_delta, role, flags, pad } => {
            Noise::ForeignBegin { id_delta: *id_delta, role: if (1..=3).contains(role) { role + 3 } else { *role }, flags: *flags, pad: *pad }
        },
        Noise::DupBegin { flags, pad, .. } => Noise::ClientOutput { ty: 1, id: 0, len: *flags as u16, pad: *pad },
        other => other.clone(),
    }
}

struct Layout {
    recs: Vec<Rec>,
    offs: Vec<usize>,
    /// per request: (index of first record, index just past the preamble, index just past the body)
    spans: Vec<(usize, usize, usize)>,
    wire: Vec<u8>,
    need: usize,
}

fn layout(c: &Case) -> Layout {
    let mut recs: Vec<Rec> = Vec::new();
    let mut spans = Vec::new();
    let mut need = 0usize;
    for r in &c.reqs {
        let start = recs.len();
        let (p, _) = r.pre.build();
        let last_gap = p.len() - 1;
        recs.extend(traffic::splice_noise_bounded(p, &r.pre_noise, r.pre.id, last_gap, |g| if g == 0 { Phase::Idle } else { Phase::Params }));
        let pre_end = recs.len();
        let body = BodySpec { streams: r.body.streams.clone(), noise: r.body.noise.iter().map(|(s, n)| (*s, defuse(n))).collect() };
        recs.extend(body.build(r.pre.id));
        spans.push((start, pre_end, recs.len()));
        need = need
            .max(r.pre.params.longest_pair())
            .max(r.pre_noise.iter().map(|(_, n)| n.longest_pair()).max().unwrap_or(0))
            .max(r.body.noise.iter().map(|(_, n)| n.longest_pair()).max().unwrap_or(0));
    }
    let mut offs = Vec::with_capacity(recs.len() + 1);
    let mut o = 0;
    for r in &recs {
        offs.push(o);
        o += r.wire_len();
    }
    offs.push(o);
    let wire_bytes = wire::encode_all(&recs);
    Layout { recs, offs, spans, wire: wire_bytes, need: need + 13 }
}

pub fn test(c: &Case) -> TestResult {
    let l = layout(c);
    let cfg = syncdrv::config((c.buf as usize).max(l.need), c.max_conns as usize);
    let mut parser = request::Parser::new(&cfg);
    let mut fed = 0usize;
    let mut cut_idx = 0usize; // record index at which the current phase's uninterpreted input starts
    let mut max_lookahead = 0usize;
    let mut handoffs_with_lookahead = 0;
    let mut stale_records = 0;
    for (i, r) in c.reqs.iter().enumerate() {
        let ctx = format!("[request #{i}]");
        let (_start, pre_end, body_end) = l.spans[i];
        let uses_none = matches!(r.reader, Reader::Close { .. });
        // Bytes beyond the body of the next abandoning reader (this request or a later one) are
        // withheld, as a closed-loop client would.
        let limit = c.reqs[i..]
            .iter()
            .position(|q| matches!(q.reader, Reader::Close { .. }))
            .map_or(l.wire.len(), |k| l.offs[l.spans[i + k].2]);
        let wire_i = &l.wire[..limit];

        // ---- request parser (fresh or converted from the previous stream parser)
        let pm = model::preamble_model(&l.recs[cut_idx..], c.max_conns as usize);
        let PreResult::Done { req: mreq, recs_used } = &pm.result else {
            vfail!("harness-inconsistent", "{ctx} model sees no complete preamble from record {cut_idx}: {:?}", pm.result);
        };
        vensure!(cut_idx + recs_used == pre_end && mreq.id == r.pre.id, "harness-inconsistent", "{ctx} model preamble ends at record {} (expected {pre_end})", cut_idx + recs_used);
        let run = run_request(parser, wire_i, fed, &r.pre_chunk).map_err(|f| Fail::new(f.sig, format!("{ctx} {}", f.msg)))?;
        vensure!(run.done, "c05-request-lost", "{ctx} request parser did not finish although the whole preamble was fed (fed {} of {} bytes, preamble ends at {})", run.fed, wire_i.len(), l.offs[pre_end]);
        let (req, left) = match run.parser.clone().into_request() {
            Ok(x) => x,
            Err(e) => vfail!("c05-request-lost", "{ctx} request parser failed: {e:?}"),
        };
        vensure!(run.fed >= l.offs[pre_end] && left[..] == l.wire[l.offs[pre_end]..run.fed], "c05-leftover", "{ctx} leftover after the preamble is {} bytes, expected exactly the {} bytes fed beyond offset {} (same bytes: {})", left.len(), run.fed as i64 - l.offs[pre_end] as i64, l.offs[pre_end], run.fed >= l.offs[pre_end] && left.len() == run.fed - l.offs[pre_end]);
        check_request(&req, mreq).map_err(|f| Fail::new(f.sig, format!("{ctx} {}", f.msg)))?;
        let replies = wire::decode_replies(&run.output).map_err(|e| Fail::new("c04-output-malformed", format!("{ctx} {e}")))?;
        model::match_replies(&pm.replies, &replies).map_err(|e| Fail::new("c05-replies", format!("{ctx} request parser (records {cut_idx}..{pre_end}): {e}")))?;
        if !left.is_empty() {
            handoffs_with_lookahead += 1;
            max_lookahead = max_lookahead.max(left.len());
        }
        let sp = match run.parser.into_stream_parser() {
            Ok(p) => p,
            Err(e) => vfail!("c05-request-lost", "{ctx} into_stream_parser failed: {e:?}"),
        };

        // ---- stream parser
        let body_recs = &l.recs[pre_end..body_end];
        let sm = model::stream_model(r.pre.id, r.pre.role, body_recs, c.max_conns as usize);
        let truth = Truth { content: &sm.content, end_header_fed_at: c02::truth_offsets(&sm, body_recs, l.offs[pre_end]) };
        let mut d = StreamDrv::new(sp, wire_i, run.fed);
        d.check_prefix(&truth)?;
        let last_stream = sm.order.last().copied();
        match &r.reader {
            Reader::ReadAll { schedule } => {
                if let Some(last) = last_stream {
                    let mut k = 0usize;
                    let mut budget = (wire_i.len() + 100) * schedule.len() * 4;
                    let mult = 1 + wire_i.len() / 4000;
                    while d.end_reported.get(&last) != Some(&true) && !d.all_fed() {
                        budget -= 1;
                        vensure!(budget > 0, "harness-inconsistent", "{ctx} schedule made no progress within its budget");
                        let act = &schedule[k % schedule.len()];
                        k += 1;
                        match act {
                            Act::Feed { n, dest } => {
                                if !d.make_room(&truth)? {
                                    unstick_some(&mut d, &sm.order, &truth)?;
                                }
                                d.parse(((*n).max(1) as usize).saturating_mul(mult), dest.map(|d| d as usize), &truth)?;
                            },
                            Act::Parse0 { dest } => {
                                d.parse(0, dest.map(|d| d as usize), &truth)?;
                            },
                            Act::ConsumeStream(n) => d.consume_stream(*n as usize, &truth)?,
                            Act::Compress => d.compress(&truth)?,
                            Act::ConsumeOutput(n) => d.consume_output(*n as usize)?,
                            Act::Advance | Act::ForceAdvance => advance_some(&mut d, &sm.order, &truth)?,
                            Act::Reselect => {
                                let cur = d.p.active_stream();
                                let _ = d.p.set_stream(cur);
                            },
                        }
                        vensure!(d.error.is_none(), "stream-unexpected-error", "{ctx} parse failed with {:?}", d.error);
                    }
                    // everything is fed: read on plainly until the final stream's end shows up
                    let mut rounds = 0;
                    while d.end_reported.get(&last) != Some(&true) {
                        rounds += 1;
                        vensure!(rounds < 100_000, "c05-stream-lost", "{ctx} end of stream {last} never reported although all {} bytes were fed", wire_i.len());
                        let before = (d.delivered.values().map(Vec::len).sum::<usize>(), d.active(), d.p.input_buffer().len(), d.p.output_buffer().len());
                        d.parse(0, None, &truth)?;
                        vensure!(d.error.is_none(), "stream-unexpected-error", "{ctx} parse failed with {:?}", d.error);
                        d.consume_stream(usize::MAX, &truth)?;
                        d.compress(&truth)?;
                        advance_some(&mut d, &sm.order, &truth)?;
                        let after = (d.delivered.values().map(Vec::len).sum::<usize>(), d.active(), d.p.input_buffer().len(), d.p.output_buffer().len());
                        vensure!(before != after || d.end_reported.get(&last) == Some(&true), "c05-stream-lost", "{ctx} end of stream {last} never reported although all {} bytes were fed", wire_i.len());
                    }
                    d.consume_stream(usize::MAX, &truth)?;
                    for &s in &sm.order {
                        let got = d.delivered.get(&s).cloned().unwrap_or_default();
                        vensure!(got == sm.content[&s], "c05-stream-content", "{ctx} stream {s}: {} of {} bytes delivered", got.len(), sm.content[&s].len());
                    }
                }
            },
            Reader::Close { first, ch } => {
                if d.active().is_some() && *first > 0 {
                    if !d.make_room(&truth)? {
                        unstick_some(&mut d, &sm.order, &truth)?;
                    }
                    d.parse(ch.size(0), Some(*first as usize), &truth)?;
                }
                // Request::close: select nothing, then parse on until a record boundary
                d.consume_stream(usize::MAX, &truth)?;
                let r0 = d.p.set_stream(None);
                vensure!(r0.is_ok(), "c18-rejects-valid", "{ctx} set_stream(None) rejected");
                let mut calls = 0;
                while !d.p.is_record_boundary() {
                    calls += 1;
                    vensure!(!(d.all_fed() && calls > 3), "c05-boundary-lost", "{ctx} no record boundary reached although the request's records were fed completely");
                    d.compress(&truth)?;
                    d.parse(ch.size(calls), None, &truth)?;
                    vensure!(d.error.is_none(), "stream-unexpected-error", "{ctx} parse failed with {:?}", d.error);
                }
            },
        }
        vensure!(d.p.is_record_boundary(), "c05-boundary-lost", "{ctx} reader stopped off a record boundary");
        d.consume_output(usize::MAX)?;
        // ---- hand-off: probe into_input on a clone, then convert
        let left = match d.p.clone().into_input() {
            Ok(v) => v,
            Err(e) => vfail!("c05-conversion", "{ctx} into_input at a record boundary failed: {e:?}"),
        };
        vensure!(left.len() <= d.pos, "c05-leftover", "{ctx} leftover longer than everything fed");
        let cut_off = d.pos - left.len();
        vensure!(left[..] == l.wire[cut_off..d.pos], "c05-leftover", "{ctx} stream parser leftover ({} bytes) is not the suffix of the bytes fed (first difference at {:?})", left.len(), left.iter().zip(&l.wire[cut_off..d.pos]).position(|(a, b)| a != b));
        let Ok(new_cut) = l.offs.binary_search(&cut_off) else {
            vfail!("c05-cut-off-boundary", "{ctx} hand-off cut at byte {cut_off} is not a record boundary of the wire");
        };
        vensure!(new_cut >= pre_end && new_cut <= body_end.max(pre_end) || !uses_none && new_cut >= pre_end, "c05-cut-range", "{ctx} hand-off cut at record {new_cut}, request spans {pre_end}..{body_end}");
        if sm.order.is_empty() && matches!(r.reader, Reader::ReadAll { .. }) {
            vensure!(new_cut == pre_end, "c05-cut-range", "{ctx} nothing was parsed after the preamble but the cut moved to record {new_cut}");
        }
        // everything before the cut must be accounted for: replies for exactly those records
        let seen = model::stream_model(r.pre.id, r.pre.role, &l.recs[pre_end..new_cut], c.max_conns as usize);
        let replies = wire::decode_replies(&d.out_log).map_err(|e| Fail::new("c04-output-malformed", format!("{ctx} {e}")))?;
        model::match_replies(&seen.replies, &replies).map_err(|e| Fail::new("c05-replies", format!("{ctx} stream parser (records {pre_end}..{new_cut}): {e}")))?;
        if !left.is_empty() {
            handoffs_with_lookahead += 1;
            max_lookahead = max_lookahead.max(left.len());
        }
        stale_records += body_end.saturating_sub(new_cut);
        fed = d.pos;
        cut_idx = new_cut;
        parser = match d.p.into_request_parser() {
            Ok(p) => p,
            Err(e) => vfail!("c05-conversion", "{ctx} into_request_parser at a record boundary failed: {e:?}"),
        };
    }
    // ---- after the last request: remaining stale records are skipped, no request appears
    let pm = model::preamble_model(&l.recs[cut_idx..], c.max_conns as usize);
    let run = run_request(parser, &l.wire, fed, &Chunking::Max)?;
    vensure!(!run.done, "c05-phantom-request", "request parser finished a request after the last one (fed {} bytes)", run.fed);
    let replies = wire::decode_replies(&run.output).map_err(|e| Fail::new("c04-output-malformed", e))?;
    model::match_replies(&pm.replies, &replies).map_err(|e| Fail::new("c05-replies", format!("trailing records {cut_idx}..: {e}")))?;
    Ok(Outcome::new(c.reqs.len() >= 2 && handoffs_with_lookahead >= 1)
        .label_if(max_lookahead >= cfg.buffer_size.max(24) / 2, "lookahead>=half-buffer")
        .label_if(stale_records > 0, "unread-records-skipped-by-next-parser")
        .label_if(c.reqs.iter().any(|r| matches!(r.reader, Reader::Close { .. })), "close-style-reader")
        .label_if(c.reqs.len() >= 3, ">=3-requests"))
}

fn no_progress_possible(d: &StreamDrv) -> bool {
    d.all_fed() && d.p.stream_buffer().is_empty()
}

/// Advance to the next stream of the role, but never to `None` (the look-ahead may already
/// contain the next request).
fn advance_some(d: &mut StreamDrv, order: &[u8], t: &Truth) -> Result<(), Fail> {
    if let Some(s) = d.active() {
        let last = order.last().copied();
        if Some(s) != last && d.end_reported.get(&s) == Some(&true) {
            d.consume_stream(usize::MAX, t)?;
            d.advance(order, t)?;
        }
    }
    Ok(())
}

fn unstick_some(d: &mut StreamDrv, order: &[u8], t: &Truth) -> Result<(), Fail> {
    for _ in 0..4 {
        d.parse(0, None, t)?;
        if d.make_room(t)? {
            return Ok(());
        }
        let before = d.active();
        advance_some(d, order, t)?;
        if d.active() == before {
            break;
        }
    }
    if d.error.is_some() || d.active().is_some_and(|s| Some(s) == order.last().copied() && d.end_reported.get(&s) == Some(&true)) {
        return Ok(());
    }
    vfail!("stream-stuck", "input buffer stays full although stream data was consumed and the buffer compacted; active stream {:?}", d.active());
}

fn req_strategy() -> BoxedStrategy<Req> {
    (1u16..=3)
        .prop_flat_map(|role| {
            (
                traffic::preamble_spec(5, 200).prop_map(move |mut p| {
                    p.role = role;
                    p
                }),
                proptest::collection::vec((any::<u16>(), traffic::noise(40)), 0..3),
                traffic::body_spec(role, 3, 40, true),
                gen::chunking(),
                prop_oneof![
                    3 => c02::schedule().prop_map(|schedule| Reader::ReadAll { schedule }),
                    2 => (prop_oneof![Just(0u16), 1u16..=50, 1u16..=5000], gen::chunking()).prop_map(|(first, ch)| Reader::Close { first, ch }),
                ],
            )
        })
        .prop_map(|(pre, pre_noise, body, pre_chunk, reader)| Req { pre, pre_noise, body, pre_chunk, reader })
        .boxed()
}

pub fn case_strategy() -> BoxedStrategy<Case> {
    (proptest::collection::vec(req_strategy(), 1..=4), c02::buf_pick(), prop_oneof![Just(1u32), 1u32..1000])
        .prop_map(|(reqs, buf, max_conns)| Case { reqs, buf, max_conns })
        .boxed()
}

pub fn property() -> Property {
    Property {
        id: "C05",
        level: "exploration",
        assumptions: vec![
            "oracle (i): at every conversion a clone is converted and its leftover compared byte-for-byte with the suffix of the bytes fed; the cut must be a record boundary of the independently encoded wire and all replies owed for records before the cut must have been emitted",
            "oracle (ii): environments and stream contents equal the per-request models (i.e. what k separate connections would yield)",
            "a reader that abandons a request selects no stream and parses on to a record boundary (what Request::close does); like a closed-loop client the driver does not supply the next request's bytes before that, because 'no stream' by documentation ignores all further stream data; readers that stop at the held end-of-stream header get unrestricted look-ahead",
            "body noise contains no BeginRequest with a valid role (it would start a request when skipped to the next parser)",
        ],
        subs: vec![prop_sub(
            "chain",
            "1..4 sequential requests (C01/C02-style preambles, bodies, noise) on one byte string through request->stream->request... conversions with one shared buffer (24 bytes upward); per request a reader that reads everything following a generated schedule or abandons the request after 0..n bytes; per-phase chunkings so that 0..buffer bytes of look-ahead are carried over, ending mid-header/payload/padding; non-trivial = >=2 requests and >=1 hand-off carrying look-ahead; distinct = hash of the case",
            30_000,
            800_000,
            |_| case_strategy(),
            test,
        )],
    }
}
