//! C16 — name-value codec round-trips; decoder is total, prefix-monotone and zero-copy.

use std::sync::OnceLock;

use fastcgi_server::protocol::nv::{self, NVIter};
use proptest::prelude::*;
use serde::{Deserialize, Serialize};

use crate::engine::*;
use crate::gen::{self, Blob};
use crate::wire::{self, Hex};
use crate::{vensure, vfail};

// ---------------------------------------------------------------------------------------------
// decoder oracle on arbitrary bytes

/// Runs the crate's decoder (shared variant) and checks it against the independent decoder,
/// including pointer containment. Returns the number of pairs.
pub fn check_decode(data: &[u8]) -> Result<usize, Fail> {
    let (exp, exp_rest) = wire::dec_pairs(data);
    let base = data.as_ptr() as usize;
    let mut it = NVIter::new(data);
    let hint = it.size_hint();
    let mut n = 0usize;
    let mut i = 0usize;
    loop {
        // the hint must bound what is still to come at every point of the iteration
        let h = it.size_hint();
        let Some((name, value)) = it.next() else { break };
        let remaining = exp.len().saturating_sub(i);
        vensure!(h.0 <= remaining && h.1.map_or(true, |u| remaining <= u), "c16-size-hint", "before pair #{i}: size_hint {h:?} but {remaining} more pairs are decoded (input len {})", data.len());
        let i_cur = i;
        i += 1;
        let i = i_cur;
        let Some(&((ns, ne), (vs, ve))) = exp.get(i) else {
            vfail!("c16-extra-pair", "decoder yielded pair #{i} (name {} bytes) but the reference decoder finds only {} complete pairs in {}", name.len(), exp.len(), Hex(data.to_vec()).dbg());
        };
        let got_ns = name.as_ptr() as usize - base;
        let got_vs = value.as_ptr() as usize - base;
        vensure!(
            got_ns == ns && name.len() == ne - ns && got_vs == vs && value.len() == ve - vs,
            "c16-slice-position",
            "pair #{i}: name at {got_ns}+{} value at {got_vs}+{}, reference says name {ns}..{ne} value {vs}..{ve} (input {})",
            name.len(), value.len(), Hex(data.to_vec()).dbg()
        );
        n += 1;
    }
    vensure!(n == exp.len(), "c16-missing-pair", "decoder yielded {n} pairs, reference {} (input {})", exp.len(), Hex(data.to_vec()).dbg());
    // fused: next() after None stays None
    for _ in 0..3 {
        vensure!(it.next().is_none(), "c16-not-fused", "next() after None yielded a pair (input {})", Hex(data.to_vec()).dbg());
    }
    let rest = it.into_inner();
    vensure!(
        rest.as_ptr() as usize - base == exp_rest && rest.len() == data.len() - exp_rest,
        "c16-into-inner",
        "into_inner() starts at {} with {} bytes, expected the undecoded suffix at {exp_rest} (input {})",
        rest.as_ptr() as usize - base, rest.len(), Hex(data.to_vec()).dbg()
    );
    // the other Iterator entry points must agree with next(): nth / skip / count / last
    for k in [0usize, 1, n.saturating_sub(1), n, n + 3] {
        let mut it2 = NVIter::new(data);
        let got = it2.nth(k);
        match (got, exp.get(k)) {
            (Some((nm, vl)), Some(&((ns, ne), (vs, ve)))) => {
                vensure!(nm.as_ptr() as usize - base == ns && nm.len() == ne - ns && vl.as_ptr() as usize - base == vs && vl.len() == ve - vs, "c16-nth", "nth({k}) yields a different pair than the {k}-th next()");
                let after = it2.next().map(|(a, _)| a.as_ptr() as usize - base);
                vensure!(after == exp.get(k + 1).map(|p| p.0 .0), "c16-nth", "next() after nth({k}) does not continue with pair {}", k + 1);
            },
            (None, None) => {
                vensure!(it2.next().is_none(), "c16-nth", "next() after an out-of-range nth({k}) yields a pair");
                let rest = it2.into_inner();
                vensure!(rest.as_ptr() as usize - base == exp_rest && rest.len() == data.len() - exp_rest, "c16-nth", "after an out-of-range nth({k}) into_inner() is not the undecoded suffix (starts at {}, expected {exp_rest})", rest.as_ptr() as usize - base);
            },
            (g, e) => vfail!("c16-nth", "nth({k}) = {:?}, but the input has {} pairs (reference pair {k}: {e:?})", g.map(|(a, b)| (a.len(), b.len())), exp.len()),
        }
    }
    vensure!(NVIter::new(data).count() == n, "c16-nth", "count() disagrees with the number of pairs yielded by next()");
    vensure!(NVIter::new(data).skip(n.saturating_sub(1)).last().map(|(a, _)| a.as_ptr() as usize - base) == exp.last().map(|p| p.0 .0), "c16-nth", "skip(n-1).last() is not the last pair");
    vensure!(hint.0 <= n, "c16-size-hint", "size_hint lower bound {} exceeds pair count {n}", hint.0);
    if let Some(up) = hint.1 {
        vensure!(n <= up, "c16-size-hint", "{n} pairs exceed size_hint upper bound {up} (input len {})", data.len());
    }
    Ok(n)
}

/// Mutable variant agrees with the shared one.
pub fn check_mut_agrees(data: &[u8]) -> Result<(), Fail> {
    let shared: Vec<(Vec<u8>, Vec<u8>)> = NVIter::new(data).map(|(n, v)| (n.to_vec(), v.to_vec())).collect();
    let mut copy = data.to_vec();
    let base = copy.as_ptr() as usize;
    let total = copy.len();
    let mut it = NVIter::new(&mut copy[..]);
    let mut got = Vec::new();
    let mut spans = Vec::new();
    for (n, v) in &mut it {
        spans.push((n.as_ptr() as usize - base, n.len(), v.as_ptr() as usize - base, v.len()));
        got.push((n.to_vec(), v.to_vec()));
    }
    vensure!(it.next().is_none(), "c16-not-fused", "mutable variant: next() after None yielded a pair");
    let rest = it.into_inner();
    let rest_at = rest.as_ptr() as usize - base;
    let rest_len = rest.len();
    vensure!(got == shared, "c16-variants-disagree", "&mut [u8] variant decoded {} pairs, & variant {} (input {})", got.len(), shared.len(), Hex(data.to_vec()).dbg());
    let (_, exp_rest) = wire::dec_pairs(data);
    vensure!(rest_at == exp_rest && rest_len == total - exp_rest, "c16-into-inner", "mutable variant: into_inner at {rest_at}+{rest_len}, expected {exp_rest}+{}", total - exp_rest);
    // consecutive sub-slices
    let mut pos = 0usize;
    for (ns, nl, vs, vl) in spans {
        vensure!(ns >= pos && vs == ns + nl, "c16-slice-position", "mutable variant: slices not consecutive");
        pos = vs + vl;
    }
    Ok(())
}

/// pairs(prefix) is a prefix of pairs(whole), for the given prefix lengths.
pub fn check_prefixes(data: &[u8], all: bool) -> Result<usize, Fail> {
    let whole: Vec<(usize, usize)> = {
        let base = data.as_ptr() as usize;
        NVIter::new(data).map(|(n, v)| (n.as_ptr() as usize - base, v.as_ptr() as usize - base + v.len())).collect()
    };
    let mut checked = 0;
    let step = if all || data.len() <= 400 { 1 } else { data.len() / 200 };
    let mut k = 0;
    while k <= data.len() {
        let pre = &data[..k];
        let base = pre.as_ptr() as usize;
        let got: Vec<(usize, usize)> =
            NVIter::new(pre).map(|(n, v)| (n.as_ptr() as usize - base, v.as_ptr() as usize - base + v.len())).collect();
        vensure!(
            got.len() <= whole.len() && got[..] == whole[..got.len()],
            "c16-prefix-monotone",
            "pairs decoded from the {k}-byte prefix are not a prefix of those decoded from all {} bytes (input {})",
            data.len(), Hex(data.to_vec()).dbg()
        );
        // every pair that ends within the prefix must be found
        let complete = whole.iter().take_while(|&&(_, end)| end <= k).count();
        vensure!(got.len() == complete, "c16-prefix-monotone", "{k}-byte prefix yields {} pairs but {complete} pairs end within it", got.len());
        checked += 1;
        k += step;
    }
    Ok(checked)
}

// ---------------------------------------------------------------------------------------------
// sub-check 1: round-trip of pair lists

#[derive(Clone, Debug, Serialize, Deserialize)]
struct PairList {
    pairs: Vec<(Blob, Blob)>,
    /// bytes already present in the output vector before encoding
    prefill: u16,
}

fn big_len() -> BoxedStrategy<u32> {
    prop_oneof![
        8 => gen::nv_len(5000),
        1 => prop_oneof![Just(65534u32), Just(65535), Just(65536), Just(70000), Just(0x01_0000 + 127), 60000u32..140000],
    ]
    .boxed()
}

fn blob_any() -> BoxedStrategy<Blob> {
    prop_oneof![
        3 => proptest::collection::vec(any::<u8>(), 0..10).prop_map(|v| Blob::Lit(Hex(v))),
        5 => (big_len(), any::<u32>()).prop_map(|(len, seed)| Blob::Gen { len, seed }),
    ]
    .boxed()
}

fn test_roundtrip(c: &PairList) -> TestResult {
    let mut out: Vec<u8> = vec![0x77; c.prefill as usize];
    let pairs: Vec<(Vec<u8>, Vec<u8>)> = c.pairs.iter().map(|(n, v)| (n.bytes(), v.bytes())).collect();
    for (n, v) in &pairs {
        let before = out.len();
        match nv::write((n, v), &mut out) {
            Ok(w) => vensure!(w == out.len() - before, "c16-write-count", "write reported {w} bytes but appended {}", out.len() - before),
            Err(e) => vfail!("c16-write-error", "write of a ({}, {})-byte pair failed: {e}", n.len(), v.len()),
        }
    }
    // The statement fixes what the encoding must decode to, not its bytes (a length below 128 may
    // legally be sent in the 4-byte form): decode with the harness's own decoder.
    {
        vensure!(out[..c.prefill as usize].iter().all(|b| *b == 0x77), "c16-encoding", "encoder changed bytes that were in the destination before");
        let (dec, used) = wire::dec_pairs_owned(&out[c.prefill as usize..]);
        vensure!(used == out.len() - c.prefill as usize && dec.len() == pairs.len() && dec.iter().zip(pairs.iter()).all(|(d, p)| d.0 == p.0 && d.1 == p.1), "c16-encoding", "encoder output does not decode (reference decoder) to the pairs written: {} pairs / {} of {} bytes", dec.len(), used, out.len() - c.prefill as usize);
    }
    let enc = &out[c.prefill as usize..];
    // decode: exactly those pairs, nothing left over
    let mut it = NVIter::new(enc);
    let hint = it.size_hint().1;
    let mut i = 0;
    for (n, v) in &mut it {
        let Some((en, ev)) = pairs.get(i) else { vfail!("c16-extra-pair", "decoder yielded more pairs than were encoded") };
        vensure!(n == &en[..] && v == &ev[..], "c16-roundtrip", "pair #{i} decoded differently (name {}/{} bytes, value {}/{} bytes)", n.len(), en.len(), v.len(), ev.len());
        i += 1;
    }
    vensure!(i == pairs.len(), "c16-roundtrip", "decoder yielded {i} of {} pairs", pairs.len());
    vensure!(it.into_inner().is_empty(), "c16-roundtrip", "decoder left bytes over after a clean encoding");
    if let Some(h) = hint {
        vensure!(pairs.len() <= h, "c16-size-hint", "{} pairs exceed the size hint {h}", pairs.len());
    }
    check_decode(enc)?;
    check_mut_agrees(enc)?;
    let long = pairs.iter().any(|(n, v)| n.len() >= 128 || v.len() >= 128);
    let huge = pairs.iter().any(|(n, v)| n.len() > 65535 || v.len() > 65535);
    let edge = pairs.iter().any(|(n, v)| [127, 128].contains(&n.len()) || [127, 128].contains(&v.len()));
    Ok(Outcome::new(pairs.len() >= 2 && long)
        .label_if(huge, "len>65535")
        .label_if(edge, "len=127|128")
        .label_if(pairs.iter().any(|(n, _)| n.is_empty()), "empty-name")
        .label_if(pairs.iter().any(|(_, v)| v.is_empty()), "empty-value"))
}

// ---------------------------------------------------------------------------------------------
// sub-check 2: arbitrary / adversarial bytes

#[derive(Clone, Debug, Serialize, Deserialize)]
enum Seg {
    Pair { n: Blob, v: Blob, long_n: bool, long_v: bool },
    /// A pair whose announced lengths exceed what follows.
    Lying { nl: u32, vl: u32, long_n: bool, long_v: bool, tail: Hex },
    Raw(Hex),
}

#[derive(Clone, Debug, Serialize, Deserialize)]
struct Hostile {
    segs: Vec<Seg>,
    /// cut the assembled input to this fraction (0xffff = keep everything)
    keep: u16,
}

fn assemble(h: &Hostile) -> Vec<u8> {
    let mut out = Vec::new();
    for s in &h.segs {
        match s {
            Seg::Pair { n, v, long_n, long_v } => wire::enc_pair_forms(&n.bytes(), &v.bytes(), *long_n, *long_v, &mut out),
            Seg::Lying { nl, vl, long_n, long_v, tail } => {
                if *long_n || *nl >= 128 { wire::enc_varint_long(*nl, &mut out) } else { wire::enc_varint(*nl, &mut out) }
                if *long_v || *vl >= 128 { wire::enc_varint_long(*vl, &mut out) } else { wire::enc_varint(*vl, &mut out) }
                out.extend_from_slice(&tail.0);
            },
            Seg::Raw(h) => out.extend_from_slice(&h.0),
        }
    }
    if h.keep != 0xffff {
        let k = gen::idx(h.keep, out.len() + 1);
        out.truncate(k);
    }
    out
}

fn seg() -> BoxedStrategy<Seg> {
    prop_oneof![
        6 => (gen::small_blob(700), gen::small_blob(700), any::<bool>(), any::<bool>())
            .prop_map(|(n, v, long_n, long_v)| Seg::Pair { n, v, long_n, long_v }),
        2 => (prop_oneof![0u32..300, Just(0x7fff_ffff), Just(0x7fff_fff0), Just(0x4000_0000), any::<u32>().prop_map(|v| v & 0x7fff_ffff)],
              prop_oneof![0u32..300, Just(0x7fff_ffff), Just(0x4000_0000), any::<u32>().prop_map(|v| v & 0x7fff_ffff)],
              any::<bool>(), any::<bool>(), proptest::collection::vec(any::<u8>(), 0..40))
            .prop_map(|(nl, vl, long_n, long_v, tail)| Seg::Lying { nl, vl, long_n, long_v, tail: Hex(tail) }),
        2 => proptest::collection::vec(prop_oneof![Just(0u8), Just(1), Just(0x7f), Just(0x80), Just(0x81), Just(0xff), any::<u8>()], 0..24)
            .prop_map(|v| Seg::Raw(Hex(v))),
    ]
    .boxed()
}

fn test_hostile(h: &Hostile) -> TestResult {
    let data = assemble(h);
    let n = check_decode(&data)?;
    check_mut_agrees(&data)?;
    let prefixes = check_prefixes(&data, false)?;
    let (_, rest) = wire::dec_pairs(&data);
    let stopped_early = rest < data.len();
    Ok(Outcome::new(n >= 1 && stopped_early && prefixes > 2)
        .label_if(stopped_early, "stops-at-incomplete-pair")
        .label_if(n == 0, "no-pair")
        .label_if(h.segs.iter().any(|s| matches!(s, Seg::Lying { nl, vl, .. } if (*nl as u64 + *vl as u64) > u32::MAX as u64 / 2)), "announces>2^31"))
}

// ---------------------------------------------------------------------------------------------
// sub-check 3: exhaustive short strings over the boundary alphabet

const ALPHABET: [u8; 7] = [0, 1, 2, 0x7f, 0x80, 0x81, 0xff];

fn test_short(h: &Hex) -> TestResult {
    let n = check_decode(&h.0)?;
    check_mut_agrees(&h.0)?;
    check_prefixes(&h.0, true)?;
    Ok(Outcome::new(h.0.len() >= 2).label_if(n >= 1, "has-pair").label_if(n >= 2, "two-pairs"))
}

// ---------------------------------------------------------------------------------------------
// sub-check 4: oversize lengths are rejected by the encoder

fn zeros() -> &'static [u8] {
    static Z: OnceLock<Vec<u8>> = OnceLock::new();
    Z.get_or_init(|| vec![0u8; (1usize << 31) + 16])
}

#[derive(Clone, Debug, Serialize, Deserialize)]
struct Oversize {
    name_len: u64,
    value_len: u64,
}

struct CountSink(u64, Vec<u8>);
impl std::io::Write for CountSink {
    fn write(&mut self, b: &[u8]) -> std::io::Result<usize> {
        self.0 += b.len() as u64;
        // keep the first bytes (the two length prefixes)
        let room = 8usize.saturating_sub(self.1.len());
        self.1.extend_from_slice(&b[..b.len().min(room)]);
        Ok(b.len())
    }
    fn flush(&mut self) -> std::io::Result<()> {
        Ok(())
    }
}

fn test_oversize(c: &Oversize) -> TestResult {
    let z = zeros();
    let (n, v) = (&z[..c.name_len as usize], &z[..c.value_len as usize]);
    let legal = c.name_len < (1 << 31) && c.value_len < (1 << 31);
    let mut sink = CountSink(0, Vec::new());
    match nv::write((n, v), &mut sink) {
        Ok(w) => {
            vensure!(legal, "c16-oversize-accepted", "write accepted a pair with lengths ({}, {})", c.name_len, c.value_len);
            vensure!(w as u64 == sink.0, "c16-write-count", "write returned {w}, sink received {}", sink.0);
            // the two length prefixes (either form) announce exactly the lengths written
            let d1 = wire::dec_varint(&sink.1);
            let d2 = d1.and_then(|(_, k)| wire::dec_varint(&sink.1[k..]).map(|(v, k2)| (v, k + k2)));
            match (d1, d2) {
                (Some((nl, _)), Some((vl, hl))) => {
                    vensure!(nl as u64 == c.name_len && vl as u64 == c.value_len, "c16-encoding", "length prefixes of a ({}, {})-byte pair encoded as {:02x?}", c.name_len, c.value_len, sink.1);
                    vensure!(sink.0 == hl as u64 + c.name_len + c.value_len, "c16-write-count", "a ({}, {})-byte pair with a {hl}-byte header was written as {} bytes", c.name_len, c.value_len, sink.0);
                },
                _ => vfail!("c16-encoding", "length prefixes of a ({}, {})-byte pair do not decode: {:02x?}", c.name_len, c.value_len, sink.1),
            }
        },
        Err(e) => {
            vensure!(!legal, "c16-write-error", "write rejected legal lengths ({}, {}): {e}", c.name_len, c.value_len);
            vensure!(e.kind() == std::io::ErrorKind::InvalidInput, "c16-oversize-kind", "oversize pair rejected with {:?}, documented InvalidInput", e.kind());
        },
    }
    Ok(Outcome::new(true))
}

pub fn property() -> Property {
    let roundtrip = prop_sub(
        "roundtrip",
        "generated lists of 0..8 pairs (one case in seven: 20..140 tiny pairs), lengths biased to 0,1,126..130,65534..65536,70000+, arbitrary bytes, output vector pre-filled; oracle: independent encoder (byte-exact) and decoders; non-trivial = >=2 pairs with a four-byte length",
        600_000,
        10_000_000,
        |_| boxed((prop_oneof![
            6 => boxed(proptest::collection::vec((blob_any(), blob_any()), 0..8)),
            // long lists of tiny pairs (iterator bookkeeping over many elements)
            1 => boxed(proptest::collection::vec((proptest::collection::vec(any::<u8>(), 0..3).prop_map(|v| Blob::Lit(Hex(v))), proptest::collection::vec(any::<u8>(), 0..3).prop_map(|v| Blob::Lit(Hex(v)))), 20..140)),
        ], 0u16..40).prop_map(|(pairs, prefill)| PairList { pairs, prefill })),
        test_roundtrip,
    );
    let hostile = prop_sub(
        "hostile_bytes",
        "byte strings assembled from valid pairs (either length form), pairs announcing more than remains (up to 2^31-1), raw boundary bytes, cut anywhere; oracle: independent decoder, pointer containment, fused, into_inner = undecoded suffix, & / &mut agree, prefix-monotone over every prefix (<=400 bytes) or 200 sampled prefixes; non-trivial = >=1 pair decoded and decoding stops at an incomplete pair",
        600_000,
        10_000_000,
        |_| boxed((proptest::collection::vec(seg(), 0..7), prop_oneof![2 => Just(0xffffu16), 1 => any::<u16>()]).prop_map(|(segs, keep)| Hostile { segs, keep })),
        test_hostile,
    );
    let short: Box<dyn Sub> = Box::new(EnumSub::<Hex> {
        name: "exhaustive_short",
        rule: "every byte string of length 0..=L over the alphabet {00,01,02,7f,80,81,ff} (L = 7 quick, 9 thorough), every prefix of each; same oracle as hostile_bytes; distinct by construction; non-trivial = length >= 2",
        exhaustive: Box::new(|_| true),
        guard_each: true,
        test: Box::new(test_short),
        body: Box::new(|tier, shard, n, sink| {
            let maxlen = tier.pick(7usize, 9usize);
            for len in 0..=maxlen {
                let total = 7u64.pow(len as u32);
                let per = total.div_ceil(n as u64);
                let lo = (per * shard as u64).min(total);
                let hi = (lo + per).min(total);
                for mut code in lo..hi {
                    let mut s = Vec::with_capacity(len);
                    for _ in 0..len {
                        s.push(ALPHABET[(code % 7) as usize]);
                        code /= 7;
                    }
                    if !sink.check(Hex(s)) {
                        return;
                    }
                }
            }
        }),
    });
    let oversize: Box<dyn Sub> = Box::new(EnumSub::<Oversize> {
        name: "oversize_write",
        rule: "name/value lengths at 2^16, 2^24-1, 2^24, 2^24+7, 2^28, 2^30, 2^31-1 (legal: exact byte count and exact length prefixes) and 2^31, 2^31+1 (must be InvalidInput) using lazily mapped zero pages and a counting sink that keeps the prefixes",
        exhaustive: Box::new(|_| true),
        guard_each: true,
        test: Box::new(test_oversize),
        body: Box::new(|_tier, shard, _n, sink| {
            if shard != 0 {
                return;
            }
            let m = 1u64 << 31;
            for (a, b) in [(m - 1, 0), (0, m - 1), (m, 0), (0, m), (m + 1, 5), (5, m + 1), (m - 1, m - 1), (m, m), (127, 128), (128, 127), (65535, 65536), (1 << 16, 3), ((1 << 24) - 1, 1), (1 << 24, 0), (0, (1 << 24) + 7), ((1 << 24) + 7, (1 << 24) - 1), (1 << 28, 1 << 20), (0x0102_0304, 0x7ffe_fdfc), (1 << 30, 1 << 30)] {
                if !sink.check(Oversize { name_len: a, value_len: b }) {
                    return;
                }
            }
        }),
    });
    Property {
        id: "C16",
        level: "exploration",
        assumptions: vec![
            "oracle = independently written name-value encoder/decoder in harness/src/wire.rs",
            "zero-copy is observed through pointer arithmetic of the yielded slices against the input slice",
        ],
        subs: vec![roundtrip, hostile, short, oversize],
    }
}
