//! Drivers for the two synchronous parsers (feed loops with the documented calling discipline).

use std::collections::BTreeMap;
use std::num::NonZeroUsize;

use fastcgi_server::parser::{request, stream, Error as ParseError, Request};
use fastcgi_server::protocol::RecordType;
use fastcgi_server::Config;

use crate::engine::Fail;
use crate::gen::Chunking;
use crate::model::ReqModel;
use crate::{vensure, vfail};

pub fn config(buffer_size: usize, max_conns: usize) -> Config {
    let mut c = Config::with_conns(NonZeroUsize::new(max_conns.max(1)).unwrap());
    c.buffer_size = buffer_size;
    c
}

/// max(24, round_up_8(b)): the documented effective size (checked against the crate in C06).
pub fn effective_buf(b: usize) -> usize {
    if b <= 24 { 24 } else { (b + 7) & !7 }
}

pub fn rt(ty: u8) -> RecordType {
    RecordType::try_from(ty).expect("valid record type")
}

#[derive(Debug, Clone, PartialEq, Eq)]
pub enum ErrKind {
    Paniced,
    StuckOnInput,
    Interrupted,
    UnknownVersion(u8),
    InvalidRequestLen(u16),
    NullRequest,
    AbortRequest,
    Protocol(String),
    Other(String),
}

pub fn err_kind(e: &ParseError) -> ErrKind {
    match e {
        ParseError::Paniced => ErrKind::Paniced,
        ParseError::StuckOnInput => ErrKind::StuckOnInput,
        ParseError::Interrupted => ErrKind::Interrupted,
        ParseError::UnknownVersion(v) => ErrKind::UnknownVersion(*v),
        ParseError::InvalidRequestLen(l) => ErrKind::InvalidRequestLen(*l),
        ParseError::NullRequest => ErrKind::NullRequest,
        ParseError::AbortRequest => ErrKind::AbortRequest,
        ParseError::Protocol(p) => ErrKind::Protocol(format!("{p:?}")),
        other => ErrKind::Other(format!("{other:?}")),
    }
}

// ---------------------------------------------------------------------------------------------
// request parser

pub struct ReqRun<'c> {
    pub parser: request::Parser<'c>,
    /// bytes of the wire handed to the parser so far
    pub fed: usize,
    pub done: bool,
    /// bytes fed before the call that reported `done`
    pub fed_before_done_call: usize,
    pub output: Vec<u8>,
    pub calls: usize,
    /// calls that carried >= 1 byte
    pub feeding_calls: usize,
}

/// Feeds `wire[start..]` into `parser` following `chunking` until the parser reports `done` or
/// the wire is exhausted.
pub fn run_request<'c>(
    mut parser: request::Parser<'c>,
    wire: &[u8],
    start: usize,
    chunking: &Chunking,
) -> Result<ReqRun<'c>, Fail> {
    let mut fed = start;
    let mut output = Vec::new();
    let mut calls = 0usize;
    let mut feeding_calls = 0usize;
    // An initial parse(0) lets the parser work on bytes it inherited from a previous parser.
    {
        let y = parser.parse(0);
        output.extend_from_slice(y.output);
        calls += 1;
        if y.done {
            return Ok(ReqRun { parser, fed, done: true, fed_before_done_call: fed, output, calls, feeding_calls });
        }
    }
    loop {
        if fed >= wire.len() {
            return Ok(ReqRun { parser, fed, done: false, fed_before_done_call: fed, output, calls, feeding_calls });
        }
        // Parsers are `Clone`: carry on with a clone once at the very start and once mid-way
        // (a clone must be a fully functional parser with the same buffer)
        if feeding_calls == 0 || feeding_calls == 3 {
            let c = parser.clone();
            parser = c;
        }
        let buf = parser.input_buffer();
        vensure!(!buf.is_empty(), "req-empty-input-buffer", "request parser is not done but offers an empty input buffer after {fed} bytes");
        let n = buf.len().min(chunking.size(feeding_calls)).min(wire.len() - fed);
        buf[..n].copy_from_slice(&wire[fed..fed + n]);
        let before = fed;
        fed += n;
        let y = parser.parse(n);
        calls += 1;
        feeding_calls += 1;
        output.extend_from_slice(y.output);
        if y.done {
            return Ok(ReqRun { parser, fed, done: true, fed_before_done_call: before, output, calls, feeding_calls });
        }
        vensure!(calls < 50_000_000, "req-livelock", "request parser driver exceeded its call budget");
    }
}

/// Compares a parsed `Request` with the model request (fields, environment, lookups).
pub fn check_request(req: &Request, m: &ReqModel) -> Result<(), Fail> {
    use fastcgi_server::cgi::VarName;
    vensure!(req.request_id.get() == m.id, "req-id", "request id {} but {} was sent", req.request_id.get(), m.id);
    vensure!(u16::from(req.role) == m.role, "req-role", "role {:?} but {} was sent", req.role, m.role);
    vensure!(req.flags.bits() == m.flags, "req-flags", "flags {:#x} but {:#x} was sent", req.flags.bits(), m.flags);
    vensure!(req.env_len() == m.env.len(), "req-env-len", "environment has {} entries, model {} ({:?} vs {:?})", req.env_len(), m.env.len(), env_keys(req), m.env.keys().collect::<Vec<_>>());
    let got: BTreeMap<String, Vec<u8>> = req.env_iter().map(|(k, v)| (k.as_ref().to_string(), v.to_vec())).collect();
    vensure!(got.len() == req.env_len(), "req-env-iter", "env_iter yields {} distinct names, env_len {}", got.len(), req.env_len());
    for (k, v) in &m.env {
        match got.get(k) {
            Some(g) => vensure!(g == v, "req-env-value", "variable {k:?}: value {} bytes {:02x?}.., model {} bytes {:02x?}..", g.len(), &g[..g.len().min(12)], v.len(), &v[..v.len().min(12)]),
            None => vfail!("req-env-missing", "variable {k:?} missing from env_iter (names read back: {:?})", got.keys().collect::<Vec<_>>()),
        }
        // lookups by canonical, lower-case and mixed-case spelling
        let lower = k.to_ascii_lowercase();
        let mixed: String = k.chars().enumerate().map(|(i, c)| if i % 2 == 0 { c.to_ascii_lowercase() } else { c }).collect();
        for spelling in [k.as_str(), lower.as_str(), mixed.as_str()] {
            let name = VarName::new(spelling);
            vensure!(req.contains_var(name), "req-lookup", "contains_var({spelling:?}) is false");
            vensure!(req.get_var(name) == Some(&v[..]), "req-lookup", "get_var({spelling:?}) returned {:?}", req.get_var(name).map(|b| b.len()));
        }
    }
    // a name that was never sent
    let absent = "X_VERIF_NEVER_SENT_\u{1F980}";
    vensure!(!m.env.contains_key(absent) && req.get_var(VarName::new(absent)).is_none(), "req-lookup", "lookup of an absent name succeeded");
    Ok(())
}

fn env_keys(req: &Request) -> Vec<String> {
    let mut v: Vec<String> = req.env_iter().map(|(k, _)| k.as_ref().to_string()).collect();
    v.sort();
    v
}

// ---------------------------------------------------------------------------------------------
// stream parser driver with invariant checking

/// What the driver knows about the truth (from the stream model).
pub struct Truth<'a> {
    pub content: &'a BTreeMap<u8, Vec<u8>>,
    /// wire offset just past the header of the record that ends stream s
    pub end_header_fed_at: BTreeMap<u8, usize>,
}

pub struct StreamDrv<'c, 'w> {
    pub p: stream::Parser<'c>,
    pub wire: &'w [u8],
    /// next wire byte to feed
    pub pos: usize,
    pub delivered: BTreeMap<u8, Vec<u8>>,
    pub out_log: Vec<u8>,
    pub end_reported: BTreeMap<u8, bool>,
    pub error: Option<ErrKind>,
    pub parse_calls: usize,
    pub saw_partial_dest: bool,
    pub saw_compress_nonempty: bool,
    pub saw_buffered: bool,
    pub saw_direct: bool,
    /// bytes of stream s copied into stream_buffer but discarded by an advance
    pub discarded: usize,
    /// with no stream selected (all of the role's streams are over) the parser stopped taking
    /// input: what follows is left to the next request parser, feeding ends here
    pub gave_up_after_end: bool,
}

impl<'c, 'w> StreamDrv<'c, 'w> {
    pub fn new(p: stream::Parser<'c>, wire: &'w [u8], pos: usize) -> Self {
        Self {
            p, wire, pos, delivered: BTreeMap::new(), out_log: Vec::new(), end_reported: BTreeMap::new(),
            error: None, parse_calls: 0, saw_partial_dest: false, saw_compress_nonempty: false,
            saw_buffered: false, saw_direct: false, discarded: 0, gave_up_after_end: false,
        }
    }

    pub fn active(&self) -> Option<u8> {
        self.p.active_stream().map(u8::from)
    }

    /// delivered[s] ++ stream_buffer() must be a prefix of content[s].
    pub fn check_prefix(&self, t: &Truth) -> Result<(), Fail> {
        let buf = self.p.stream_buffer();
        match self.active() {
            None => vensure!(buf.is_empty(), "stream-data-without-stream", "stream_buffer holds {} bytes while no stream is active", buf.len()),
            Some(s) => {
                let empty = Vec::new();
                let d = self.delivered.get(&s).unwrap_or(&empty);
                let c = t.content.get(&s).unwrap_or(&empty);
                let total = d.len() + buf.len();
                vensure!(total <= c.len(), "stream-too-much", "stream {s}: {} bytes delivered+buffered but the stream only has {}", total, c.len());
                vensure!(c[..d.len()] == d[..], "stream-content", "stream {s}: delivered bytes differ from the stream content (first difference at {:?})", d.iter().zip(c.iter()).position(|(a, b)| a != b));
                vensure!(c[d.len()..total] == *buf, "stream-content", "stream {s}: buffered bytes differ from the stream content at offset {} (first difference at +{:?})", d.len(), buf.iter().zip(c[d.len()..].iter()).position(|(a, b)| a != b));
            },
        }
        Ok(())
    }

    /// One `parse` call with `n` fresh bytes (already bounded by the caller) and optional dest.
    pub fn parse(&mut self, n: usize, dest_cap: Option<usize>, t: &Truth) -> Result<Option<stream::Status>, Fail> {
        if dest_cap.is_some() && !self.p.stream_buffer().is_empty() {
            // documented precondition: stream_buffer must be consumed before using dest
            self.consume_stream(usize::MAX, t)?;
        }
        if self.parse_calls == 2 {
            // stream parsers are `Clone` too: continue on a clone once
            let c = self.p.clone();
            self.p = c;
        }
        let n = {
            let buf = self.p.input_buffer();
            let n = n.min(buf.len()).min(self.wire.len() - self.pos);
            buf[..n].copy_from_slice(&self.wire[self.pos..self.pos + n]);
            n
        };
        self.pos += n;
        let active = self.active();
        let sb_before = self.p.stream_buffer().len();
        let out_before = self.p.output_buffer().len();
        let mut dest_vec = dest_cap.map(|c| vec![0xCDu8; c]);
        let res = self.p.parse(n, dest_vec.as_deref_mut());
        self.parse_calls += 1;
        match res {
            Err(e) => {
                let k = err_kind(&e);
                if let Some(prev) = &self.error {
                    vensure!(*prev == k, "stream-error-not-sticky", "parse returned {k:?} after having returned {prev:?}");
                }
                self.error = Some(k);
                // Replies appended before the failure stay readable; stream bytes copied into a
                // dest during a failing call are unreported (only the prefix relation is owed).
                self.check_prefix(t)?;
                Ok(None)
            },
            Ok(st) => {
                vensure!(self.error.is_none(), "stream-error-not-sticky", "parse succeeded after having failed with {:?}", self.error);
                let out_after = self.p.output_buffer().len();
                vensure!(out_after == out_before + st.output, "stream-output-count", "Status.output = {} but output_buffer grew by {}", st.output, out_after - out_before);
                match (&dest_vec, active) {
                    (Some(d), Some(s)) => {
                        vensure!(st.stream <= d.len(), "stream-count", "Status.stream = {} exceeds dest capacity {}", st.stream, d.len());
                        vensure!(d[st.stream..].iter().all(|&b| b == 0xCD), "stream-dest-overrun", "parse wrote beyond the {} bytes it reported into dest", st.stream);
                        vensure!(self.p.stream_buffer().is_empty(), "stream-count", "parse with dest left data in stream_buffer");
                        self.delivered.entry(s).or_default().extend_from_slice(&d[..st.stream]);
                        if st.stream > 0 {
                            self.saw_direct = true;
                        }
                        if st.stream == d.len() && !d.is_empty() && !st.stream_end {
                            self.saw_partial_dest = true;
                        }
                    },
                    (Some(d), None) => {
                        vensure!(st.stream == 0 && d.iter().all(|&b| b == 0xCD), "stream-data-without-stream", "{} bytes delivered into dest while no stream is active", st.stream);
                    },
                    (None, _) => {
                        let grown = self.p.stream_buffer().len() - sb_before;
                        vensure!(st.stream == grown, "stream-count", "Status.stream = {} but stream_buffer grew by {grown}", st.stream);
                        if active.is_none() {
                            vensure!(st.stream == 0, "stream-data-without-stream", "{} bytes buffered while no stream is active", st.stream);
                        }
                        if st.stream > 0 {
                            self.saw_buffered = true;
                        }
                    },
                }
                self.check_prefix(t)?;
                match active {
                    None => vensure!(st.stream_end, "stream-end-flag", "stream_end is false although no stream is active"),
                    Some(s) => {
                        if st.stream_end {
                            let empty = Vec::new();
                            let c = t.content.get(&s).unwrap_or(&empty);
                            let have = self.delivered.get(&s).map_or(0, Vec::len) + self.p.stream_buffer().len();
                            vensure!(have == c.len(), "stream-end-early", "stream {s}: end-of-stream reported after {have} of {} bytes", c.len());
                            match t.end_header_fed_at.get(&s) {
                                Some(&at) => vensure!(self.pos >= at, "stream-end-early", "stream {s}: end-of-stream reported after feeding {} bytes, but the record that ends it is only identifiable after {at}", self.pos),
                                None => vfail!("stream-end-early", "stream {s}: end-of-stream reported but the traffic never ends that stream"),
                            }
                            self.end_reported.insert(s, true);
                        } else if self.end_reported.get(&s) == Some(&true) {
                            vfail!("stream-end-not-persistent", "stream {s}: end-of-stream was reported earlier but not by this call");
                        }
                    },
                }
                Ok(Some(st))
            },
        }
    }

    pub fn consume_stream(&mut self, k: usize, t: &Truth) -> Result<(), Fail> {
        let buf = self.p.stream_buffer();
        let k = k.min(buf.len());
        if let Some(s) = self.active() {
            self.delivered.entry(s).or_default().extend_from_slice(&buf[..k]);
        }
        let before = buf.len();
        self.p.consume_stream(k);
        vensure!(self.p.stream_buffer().len() == before - k, "stream-consume", "consume_stream({k}) left {} of {before} bytes", self.p.stream_buffer().len());
        self.check_prefix(t)
    }

    pub fn compress(&mut self, t: &Truth) -> Result<(), Fail> {
        let before = self.p.stream_buffer().to_vec();
        let free_before = self.p.input_buffer().len();
        if !before.is_empty() {
            self.saw_compress_nonempty = true;
        }
        self.p.compress();
        vensure!(self.p.stream_buffer() == &before[..], "stream-compress", "compress changed the contents of stream_buffer");
        vensure!(self.p.input_buffer().len() >= free_before, "stream-compress", "compress shrank the input buffer");
        self.check_prefix(t)
    }

    pub fn consume_output(&mut self, k: usize) -> Result<(), Fail> {
        let ob = self.p.output_buffer();
        let k = k.min(ob.len());
        let rest = ob[k..].to_vec();
        self.out_log.extend_from_slice(&ob[..k]);
        self.p.consume_output(k);
        vensure!(self.p.output_buffer() == &rest[..], "stream-output-consume", "consume_output({k}) left wrong bytes in output_buffer");
        Ok(())
    }

    /// set_stream(next in role order, or None after the last); discards buffered data.
    pub fn advance(&mut self, order: &[u8], t: &Truth) -> Result<(), Fail> {
        let next = match self.active() {
            None => None,
            Some(s) => order.iter().position(|&x| x == s).and_then(|i| order.get(i + 1)).copied(),
        };
        self.discarded += self.p.stream_buffer().len();
        let r = self.p.set_stream(next.map(rt));
        vensure!(r.is_ok(), "stream-advance-rejected", "set_stream({next:?}) rejected: {:?}", r.err());
        vensure!(self.active() == next, "stream-advance", "active_stream is {:?} after selecting {next:?}", self.active());
        vensure!(self.p.stream_buffer().is_empty(), "stream-advance", "stream_buffer not emptied by advancing");
        self.check_prefix(t)
    }

    pub fn all_fed(&self) -> bool {
        self.pos >= self.wire.len()
    }

    /// Makes room in the input buffer the way a caller must: consume buffered data, compress.
    pub fn make_room(&mut self, t: &Truth) -> Result<bool, Fail> {
        if !self.p.input_buffer().is_empty() {
            return Ok(true);
        }
        self.consume_stream(usize::MAX, t)?;
        self.compress(t)?;
        Ok(!self.p.input_buffer().is_empty())
    }
}
