//! Scripted connections against `Token::run`: case description, expansion into a client byte
//! script with closed-loop release points, execution on the deterministic test bed, and the
//! connection model used as oracle (DESIGN.md section 2.1).

use std::collections::BTreeMap;
use std::sync::atomic::{AtomicUsize, Ordering};
use std::sync::{Arc, Mutex};

use proptest::prelude::*;
use serde::{Deserialize, Serialize};

use fastcgi_server::async_io::Runner;

use crate::aio::*;
use crate::engine::Fail;
use crate::gen::{self, idx};
use crate::model::{self, Exp, PreResult, ReqModel, StreamModel};
use crate::syncdrv;
use crate::traffic::{self, BodySpec, Noise, Phase, PreambleSpec};
use crate::wire::{self, OutRec, Rec, Reply};
use crate::{vensure, vfail};

// ---------------------------------------------------------------------------------------------
// case description

#[derive(Clone, Debug, Serialize, Deserialize)]
pub struct ConnReq {
    pub pre: PreambleSpec,
    /// records before BeginRequest / between the preamble records
    pub pre_noise: Vec<(u16, Noise)>,
    pub body: BodySpec,
    /// management records sent right after the request's last record
    pub after: Vec<Noise>,
    pub handler: Vec<HOp>,
    /// wait for the reply to every management query of this request before sending on (C08)
    pub wait_mgmt: bool,
    /// additional release boundaries (fractions of the request's record list): the peer sends
    /// the records in this many separate bursts (all immediately available)
    pub bursts: Vec<u16>,
    /// the client aborts this request (C11)
    #[serde(default)]
    pub abort: Option<AbortSpec>,
}

#[derive(Clone, Debug, Serialize, Deserialize)]
pub struct AbortSpec {
    /// the AbortRequest record replaces everything after this many of the request's own records
    /// (fraction; at least the BeginRequest record is sent)
    pub after: u16,
    pub body_len: u16,
    pub pad: u8,
}

#[derive(Clone, Copy, Debug, PartialEq, Eq)]
pub enum Kind {
    Normal,
    /// aborted before the Params stream ended: no handler invocation
    ParamsAbort,
    /// aborted after the preamble
    StreamAbort,
}

#[derive(Clone, Debug, Serialize, Deserialize)]
pub struct ConnCase {
    pub reqs: Vec<ConnReq>,
    /// management records sent after the last EndRequest, before the peer closes
    pub tail: Vec<Noise>,
    pub read_script: Vec<RStep>,
    pub write_script: Vec<WStep>,
    pub vectored: bool,
    pub buf: u32,
    pub max_conns: u32,
    pub propagate: bool,
    /// the client does not wait for EndRequest before sending the next request (everything is
    /// available at once); only used with handlers that leave the parser at a record boundary
    #[serde(default)]
    pub pipelined: bool,
    /// readiness script of the transport's flush (see `World::flush_script`)
    #[serde(default)]
    pub flush_script: Vec<bool>,
}

/// Only noise kinds whose reply does not depend on the protocol phase (plus silent ones) are
/// legal for a client with one outstanding request.
pub fn conn_noise_ok(n: &Noise) -> bool {
    match n {
        Noise::GetValues { .. } | Noise::UnknownType { .. } | Noise::ClientOutput { .. } => true,
        Noise::Foreign { ty, .. } => *ty % 4 != 3 || true,
        Noise::ForeignBegin { role, .. } => !(1..=3).contains(role),
        Noise::DupBegin { .. } | Noise::StaleParams { .. } => false,
    }
}

pub struct Built {
    pub recs: Vec<Rec>,
    /// per request: record index ranges (start, preamble end, body end, after end)
    pub spans: Vec<(usize, usize, usize, usize)>,
    pub offs: Vec<usize>,
    pub client: Vec<u8>,
    pub releases: Vec<(usize, Cond)>,
    pub need: usize,
    /// record indices of management queries (non-empty GetValues for id 0, unknown types)
    pub queries: Vec<usize>,
    pub kinds: Vec<Kind>,
}

fn is_query(r: &Rec) -> bool {
    !(1..=11).contains(&r.ty) || (r.ty == wire::T_GETVALUES && r.id == 0 && !r.payload.is_empty())
}

pub fn build(c: &ConnCase) -> Built {
    let ids: Vec<u16> = c.reqs.iter().map(|r| r.pre.id).collect();
    let keep = |r: &Rec, own: u16| -> bool {
        // foreign ids must not coincide with any real request id of this connection
        r.id == own || r.id == 0 || !ids.contains(&r.id) || !(1..=11).contains(&r.ty)
    };
    let mut recs: Vec<Rec> = Vec::new();
    let mut spans = Vec::new();
    let mut need = 0usize;
    let mut burst_cuts: Vec<Vec<usize>> = Vec::new();
    let mut kinds: Vec<Kind> = Vec::new();
    for q in &c.reqs {
        let own = q.pre.id;
        let start = recs.len();
        let (p, _) = q.pre.build();
        let last_gap = p.len() - 1;
        let noise: Vec<(u16, Noise)> = q.pre_noise.iter().filter(|(_, n)| conn_noise_ok(n)).cloned().collect();
        let mut pre_recs: Vec<Rec> = traffic::splice_noise_bounded(p, &noise, own, last_gap, |g| if g == 0 { Phase::Idle } else { Phase::Params }).into_iter().filter(|r| keep(r, own)).collect();
        let body = BodySpec { streams: q.body.streams.clone(), noise: q.body.noise.iter().filter(|(_, n)| conn_noise_ok(n)).cloned().collect() };
        let mut body_recs: Vec<Rec> = body.build(own).into_iter().filter(|r| keep(r, own)).collect();
        let mut kind = Kind::Normal;
        if let Some(a) = &q.abort {
            // position among the request's records, after the BeginRequest record
            let begin_at = pre_recs.iter().position(|r| r.ty == wire::T_BEGIN && r.id == own).expect("begin record");
            let total = pre_recs.len() + body_recs.len();
            let k = begin_at + 1 + idx(a.after, total - begin_at);
            let abort_rec = Rec::new(wire::T_ABORT, own, gen::gen_bytes(a.body_len as usize, 9), a.pad);
            if k < pre_recs.len() {
                pre_recs.truncate(k);
                pre_recs.push(abort_rec);
                body_recs.clear();
                kind = Kind::ParamsAbort;
            } else {
                body_recs.truncate(k - pre_recs.len());
                body_recs.push(abort_rec);
                kind = Kind::StreamAbort;
            }
        }
        kinds.push(kind);
        recs.extend(pre_recs);
        let pre_end = recs.len();
        recs.extend(body_recs);
        let body_end = recs.len();
        for n in q.after.iter().filter(|n| conn_noise_ok(n)) {
            if let Some(r) = n.build(own, Phase::Streams) {
                if keep(&r, own) {
                    recs.push(r);
                }
            }
        }
        let after_end = recs.len();
        spans.push((start, pre_end, body_end, after_end));
        let n_rec = after_end - start;
        let mut cuts: Vec<usize> = q.bursts.iter().map(|f| start + idx(*f, n_rec + 1)).filter(|&k| k > start && k < after_end).collect();
        cuts.sort_unstable();
        cuts.dedup();
        burst_cuts.push(cuts);
        need = need
            .max(q.pre.params.longest_pair())
            .max(q.pre_noise.iter().map(|(_, n)| n.longest_pair()).max().unwrap_or(0))
            .max(q.body.noise.iter().map(|(_, n)| n.longest_pair()).max().unwrap_or(0))
            .max(q.after.iter().map(Noise::longest_pair).max().unwrap_or(0));
    }
    let tail_start = recs.len();
    let last_id = ids.last().copied().unwrap_or(1);
    for n in c.tail.iter().filter(|n| conn_noise_ok(n)) {
        if let Some(r) = n.build(last_id, Phase::Idle) {
            if keep(&r, last_id) {
                recs.push(r);
            }
        }
        need = need.max(n.longest_pair());
    }
    let mut offs = Vec::with_capacity(recs.len() + 1);
    let mut o = 0;
    for r in &recs {
        offs.push(o);
        o += r.wire_len();
    }
    offs.push(o);
    let client = wire::encode_all(&recs);
    let queries: Vec<usize> = recs.iter().enumerate().filter(|(_, r)| is_query(r)).map(|(i, _)| i).collect();

    // releases: closed loop on EndRequest (always) and on management replies (wait_mgmt)
    let mut releases: Vec<(usize, Cond)> = Vec::new();
    let mut ends: BTreeMap<u16, u16> = BTreeMap::new();
    let mut cond = Cond::Now;
    let mut mgmt_so_far = 0u16;
    for (qi, q) in c.reqs.iter().enumerate() {
        let (start, _pre_end, _body_end, after_end) = spans[qi];
        let mut seg_start = start;
        let mut boundaries: Vec<usize> = burst_cuts[qi].clone();
        boundaries.push(after_end);
        if q.wait_mgmt {
            // a release ends right after every query; the next one waits for its reply
            for &k in queries.iter().filter(|&&k| k >= start && k < after_end) {
                boundaries.push(k + 1);
            }
            boundaries.sort_unstable();
            boundaries.dedup();
        }
        for b in boundaries {
            if b <= seg_start {
                continue;
            }
            releases.push((offs[b], cond.clone()));
            let q_in_seg = queries.iter().filter(|&&k| k >= seg_start && k < b).count() as u16;
            mgmt_so_far += q_in_seg;
            cond = if q.wait_mgmt && q_in_seg > 0 { Cond::MgmtReplies(mgmt_so_far) } else { Cond::Now };
            seg_start = b;
        }
        let e = ends.entry(q.pre.id).or_insert(0);
        *e += 1;
        let end_cond = Cond::EndSeen { id: q.pre.id, n: *e };
        cond = if matches!(cond, Cond::Now) { end_cond } else { Cond::All(vec![cond, end_cond]) };
    }
    if recs.len() > tail_start {
        releases.push((offs[recs.len()], cond));
    }
    if c.pipelined {
        for r in &mut releases {
            r.1 = Cond::Now;
        }
    }
    Built { recs, spans, offs, client, releases, need: need + 13, queries, kinds }
}

// ---------------------------------------------------------------------------------------------
// execution

pub struct RunResult {
    pub end: RunEnd,
    pub steps: usize,
    pub world: Arc<Mutex<World>>,
    pub invocations: Vec<Invocation>,
    pub handler_step_log: Vec<usize>,
}

pub const STEP_LIMIT: usize = 2_000_000;

/// Runs one connection through `Token::run` with the given fault; `on_step` is called with the
/// step index before every poll of the connection task (used to inject shutdown).
pub fn run_conn(c: &ConnCase, b: &Built, fault: IoFault, mut on_step: impl FnMut(usize, &Runner) -> Option<()>) -> Result<RunResult, Fail> {
    let cfg = syncdrv::config((c.buf as usize).max(b.need), c.max_conns as usize);
    let world = Arc::new(Mutex::new(World::new(b.client.clone(), b.releases.clone(), c.read_script.clone(), c.write_script.clone(), c.vectored, fault)));
    world.lock().unwrap().flush_script = c.flush_script.clone();
    let step = Arc::new(AtomicUsize::new(0));
    let sh = Arc::new(HShared {
        scripts: c.reqs.iter().zip(&b.kinds).filter(|(_, k)| **k != Kind::ParamsAbort).map(|(r, _)| r.handler.clone()).collect(),
        propagate: c.propagate,
        log: Mutex::new(Vec::new()),
        step: step.clone(),
        world: world.clone(),
    });
    let runner = cfg.async_runner();
    let token = {
        let fut = runner.get_token();
        let mut fut = Box::pin(fut);
        let flag = FlagWaker::new(false);
        let waker = std::task::Waker::from(flag);
        let mut cx = std::task::Context::from_waker(&waker);
        match std::future::Future::poll(fut.as_mut(), &mut cx) {
            std::task::Poll::Ready(t) => t,
            std::task::Poll::Pending => vfail!("c13-first-token-pending", "get_token() is pending although no token exists"),
        }
    };
    let handler = make_handler(sh.clone());
    let fut = token.run(MockReader(world.clone()), MockWriter(world.clone()), handler);
    let mut task = Task::new(fut);
    let mut steps = 0usize;
    let end = loop {
        if task.finished() {
            break RunEnd::Finished;
        }
        if !task.flag.is_woken() {
            break RunEnd::Idle;
        }
        if steps >= STEP_LIMIT {
            break RunEnd::StepLimit;
        }
        step.store(steps, Ordering::SeqCst);
        let _ = on_step(steps, &runner);
        {
            let mut w = world.lock().unwrap();
            w.cur_poll = steps;
            w.begin_poll();
        }
        steps += 1;
        let done = task.poll_once();
        world.lock().unwrap().end_poll(!done);
    };
    drop(task);
    let invocations = sh.log.lock().unwrap().clone();
    Ok(RunResult { end, steps, world, invocations, handler_step_log: Vec::new() })
}

pub fn dump(b: &Built, r: &RunResult) {
    let w = r.world.lock().unwrap();
    eprintln!("zero_len_reads={} end={:?} steps={} client={} released={} read_pos={} eof_delivered={} log={} read_calls={} write_calls={}", w.zero_len_reads, r.end, r.steps, w.client.len(), w.released, w.read_pos, w.eof_delivered, w.log.len(), w.read_calls, w.write_calls);
    eprintln!("spans={:?} offs(first 12)={:?}", b.spans, &b.offs[..b.offs.len().min(12)]);
    for (i, inv) in r.invocations.iter().enumerate() {
        eprintln!("  inv#{i}: role {} flags {:#x} reads {:?} eof {:?} read_errors {:?} write_errors {:?} writes {} returned {:?}", inv.role, inv.flags, inv.reads.iter().map(|(k, v)| (*k, v.len())).collect::<Vec<_>>(), inv.eof_seen, inv.read_errors, inv.write_errors, inv.writes.len(), inv.returned);
    }
    if let Ok((recs, used)) = wire::decode_log(&w.log) {
        for r in recs.iter().take(40) {
            eprintln!("  log@{}: type {} id {} len {} pad {}", r.at, r.ty, r.id, r.payload.len(), r.pad.len());
        }
        eprintln!("  decoded {} of {} bytes", used, w.log.len());
    }
}

// ---------------------------------------------------------------------------------------------
// connection model

pub struct ReqExpect {
    pub id: u16,
    pub model: ReqModel,
    pub streams: StreamModel,
    pub keep_conn: bool,
}

pub struct ConnModel {
    pub reqs: Vec<ReqExpect>,
    /// phase-independent replies owed for the client's records, in arrival order
    pub e1: Vec<Exp>,
}

pub fn conn_model(c: &ConnCase, b: &Built) -> Result<ConnModel, Fail> {
    let mut reqs = Vec::new();
    for (qi, q) in c.reqs.iter().enumerate() {
        let (start, pre_end, body_end, after_end) = b.spans[qi];
        let pm = model::preamble_model(&b.recs[start..pre_end], c.max_conns as usize);
        let _ = body_end;
        match (b.kinds[qi], pm.result) {
            (Kind::ParamsAbort, PreResult::Incomplete) => {
                vensure!(pm.aborted == vec![q.pre.id], "harness-inconsistent", "request {qi}: expected one Params-phase abort, model saw {:?}", pm.aborted);
                let empty = model::stream_model(q.pre.id, q.pre.role, &[], 1);
                reqs.push(ReqExpect { id: q.pre.id, model: ReqModel { id: q.pre.id, role: q.pre.role, flags: q.pre.flags, env: Default::default() }, streams: empty, keep_conn: true });
            },
            (Kind::ParamsAbort, other) => vfail!("harness-inconsistent", "request {qi}: Params-phase abort but preamble model {other:?}"),
            (_, PreResult::Done { req, recs_used }) => {
                vensure!(recs_used == pre_end - start, "harness-inconsistent", "request {qi}: model preamble ends early");
                let sm = model::stream_model(q.pre.id, q.pre.role, &b.recs[pre_end..after_end], c.max_conns as usize);
                vensure!(sm.abort_at.is_some() == (b.kinds[qi] == Kind::StreamAbort), "harness-inconsistent", "request {qi}: abort position disagrees with the stream model");
                reqs.push(ReqExpect { id: q.pre.id, model: req, streams: sm, keep_conn: q.pre.flags & 1 == 1 });
            },
            (_, other) => vfail!("harness-inconsistent", "request {qi}: preamble model {other:?}"),
        }
    }
    // E1 over the whole connection: every record's phase-independent reply
    let mut e1 = Vec::new();
    for (i, r) in b.recs.iter().enumerate() {
        if !(1..=11).contains(&r.ty) {
            e1.push(Exp { cause: i, kind: model::ExpKind::Exact(Reply::Unknown { id: r.id, ty: r.ty }) });
        } else if r.ty == wire::T_GETVALUES && r.id == 0 {
            e1.push(Exp { cause: i, kind: model::values_reply(&r.payload, c.max_conns as usize) });
        } else if r.ty == wire::T_BEGIN && !c.reqs.iter().any(|q| q.pre.id == r.id) {
            // only unknown-role foreign BeginRequest records are generated
            e1.push(Exp {
                cause: i,
                kind: model::ExpKind::OneOf(vec![
                    Reply::End { id: r.id, proto: wire::ST_UNKNOWN_ROLE, app: 0 },
                    Reply::End { id: r.id, proto: wire::ST_CANT_MPX, app: 0 },
                ]),
            });
        }
    }
    Ok(ConnModel { reqs, e1 })
}

/// What a handler script does, abstractly (derived from the script, not from the run).
pub fn script_returns(ops: &[HOp]) -> Result<Status, FaultKind> {
    for op in ops {
        match op {
            HOp::Return(s) => return Ok(s.clone()),
            HOp::ReturnErr(k) => return Err(*k),
            _ => {},
        }
    }
    Ok(Status::Complete(0))
}

pub struct LogView {
    pub recs: Vec<OutRec>,
    pub complete_len: usize,
    pub total_len: usize,
}

pub fn view_log(log: &[u8]) -> Result<LogView, Fail> {
    let (recs, used) = wire::decode_log(log).map_err(|e| Fail::new("conn-log-malformed", e))?;
    Ok(LogView { recs, complete_len: used, total_len: log.len() })
}

/// Result of checking the per-request grammar on the log.
pub struct GrammarOut {
    /// number of requests whose EndRequest is on the log
    pub ended: usize,
    /// management/rejection replies in order
    pub mgmt: Vec<Reply>,
    /// per request: (stdout bytes, stderr bytes, records)
    pub data: Vec<(Vec<u8>, Vec<u8>, usize)>,
    pub end_status: Vec<(u8, u32)>,
}

/// Checks record well-formedness and the per-request record grammar:
/// `HandlerData* ; {StdoutEnd, StderrEnd in either order} ; EndRequest` and nothing after it.
/// `aborted[i]` relaxes the two end records to optional for request i.
pub fn check_grammar(view: &LogView, ids: &[u16], relaxed: &dyn Fn(usize) -> bool) -> Result<GrammarOut, Fail> {
    let mut cur = 0usize;
    let mut out = GrammarOut { ended: 0, mgmt: Vec::new(), data: vec![(Vec::new(), Vec::new(), 0); ids.len()], end_status: Vec::new() };
    let mut ends_seen = [false; 2];
    for r in &view.recs {
        let reply = wire::classify_out(r).map_err(|e| Fail::new("conn-log-malformed", e))?;
        let real = |id: u16| ids.contains(&id);
        match &reply {
            Reply::Values { .. } | Reply::Unknown { .. } => out.mgmt.push(reply.clone()),
            Reply::End { id, .. } if !real(*id) => out.mgmt.push(reply.clone()),
            Reply::End { id, proto, app } => {
                vensure!(cur < ids.len() && *id == ids[cur], "conn-unexpected-endrequest", "EndRequest for id {id} at log offset {} but request in progress is {:?}", r.at, ids.get(cur));
                if !relaxed(cur) {
                    vensure!(ends_seen[0] && ends_seen[1], "conn-missing-stream-end", "EndRequest for request #{cur} (id {id}) at offset {} not preceded by empty Stdout and Stderr records (stdout end {}, stderr end {})", r.at, ends_seen[0], ends_seen[1]);
                }
                out.end_status.push((*proto, *app));
                out.ended += 1;
                cur += 1;
                ends_seen = [false; 2];
            },
            Reply::Stream { ty, id, payload } => {
                vensure!(cur < ids.len() && *id == ids[cur], "conn-stray-stream-record", "output record type {ty} for id {id} at offset {} but request in progress is {:?}", r.at, ids.get(cur));
                let k = (*ty == wire::T_STDERR) as usize;
                if payload.is_empty() {
                    vensure!(!ends_seen[k], "conn-duplicate-stream-end", "second empty record for stream {ty} of request #{cur}");
                    ends_seen[k] = true;
                } else {
                    vensure!(!ends_seen[k], "conn-data-after-stream-end", "data record for stream {ty} after its end record (request #{cur})");
                    vensure!(r.pad.len() < 8 && (payload.len() + r.pad.len()) % 8 == 0, "c10-padding", "output record at {} has content {} padding {}", r.at, payload.len(), r.pad.len());
                    let d = &mut out.data[cur];
                    if k == 0 { d.0.extend_from_slice(payload) } else { d.1.extend_from_slice(payload) }
                    d.2 += 1;
                }
            },
        }
    }
    Ok(out)
}

/// The fault-free connection oracle shared by C07 / C08 / C11 / C14.
/// `expected_served`: how many requests the connection must serve (handler invocations).
pub struct Verdict {
    pub served: usize,
    pub short_reads: usize,
    pub short_writes: usize,
}

/// Walks the connection: which requests reach the server (`reached`), which invoke the handler,
/// and what each must leave on the log. Uses the handler's *observed* return value (an aborted
/// request may legitimately end with the handler's own status or with the propagated error).
pub struct Walk {
    /// number of requests (of any kind) the server must have dealt with
    pub reached: usize,
    /// expected handler invocations
    pub invoked: usize,
    /// per reached request: expected EndRequest (protocol, app) or None if the connection is
    /// dropped without one
    pub ends: Vec<Option<(u8, u32)>>,
}

pub fn walk(c: &ConnCase, b: &Built, invocations: &[Invocation], observed_ends: usize) -> Result<Walk, Fail> {
    let mut w = Walk { reached: 0, invoked: 0, ends: Vec::new() };
    for (qi, q) in c.reqs.iter().enumerate() {
        w.reached += 1;
        if b.kinds[qi] == Kind::ParamsAbort {
            w.ends.push(Some((wire::ST_COMPLETE, 0)));
            // With the keep-connection flag the connection goes on (C11). Without it the
            // statements are silent (C07's "if and only if" is about requests whose preamble
            // arrived completely): the server may go on, as the pinned code does, or close after
            // this EndRequest - decided by what it did.
            if q.pre.flags & 1 == 0 && observed_ends <= w.ends.iter().filter(|e| e.is_some()).count() {
                break;
            }
            continue;
        }
        let j = w.invoked;
        w.invoked += 1;
        let Some(inv) = invocations.get(j) else {
            w.ends.push(None);
            break;
        };
        let keep = q.pre.flags & 1 == 1;
        match &inv.returned {
            Some(Ok(st)) => w.ends.push(Some(st.on_wire())),
            Some(Err(k)) if *k == std::io::ErrorKind::ConnectionAborted => {
                vensure!(b.kinds[qi] == Kind::StreamAbort, "conn-unexpected-io-error", "request #{qi}: handler saw ConnectionAborted although the client did not abort");
                // "the distinguished abort application status": whatever value the crate's public
                // constant ExitStatus::ABORT carries, under protocol status RequestComplete
                let abrt = match fastcgi_server::ExitStatus::ABORT {
                    fastcgi_server::ExitStatus::Complete(c) => c,
                    _ => wire::ABRT,
                };
                w.ends.push(Some((wire::ST_COMPLETE, abrt)));
            },
            Some(Err(_)) => {
                w.ends.push(None);
                break;
            },
            None => vfail!("conn-handler-unfinished", "request #{qi}: the handler future was dropped before it returned"),
        }
        if !keep {
            break;
        }
    }
    Ok(w)
}

pub fn check_clean_run(c: &ConnCase, b: &Built, m: &ConnModel, r: &RunResult) -> Result<Verdict, Fail> {
    let w = r.world.lock().unwrap();
    match r.end {
        RunEnd::Finished => {},
        RunEnd::Idle => {
            let waiting = w.peer_waiting();
            vfail!(
                if waiting { "conn-deadlock" } else { "conn-hang" },
                "connection task is suspended with nobody to wake it after {} steps: peer waiting for output: {waiting}; client bytes read {}/{} (released {}); log {} bytes; handler invocations {}",
                r.steps, w.read_pos, w.client.len(), w.released, w.log.len(), r.invocations.len()
            );
        },
        RunEnd::StepLimit => vfail!("conn-spin", "connection task still running after {} polls", r.steps),
    }
    let observed_ends = {
        let ids: Vec<u16> = c.reqs.iter().map(|q| q.pre.id).collect();
        let (recs, _) = wire::decode_log(&w.log).map_err(|e| Fail::new("conn-log-malformed", e))?;
        recs.iter().filter(|r| r.ty == wire::T_END && ids.contains(&r.id)).count()
    };
    let wk = walk(c, b, &r.invocations, observed_ends)?;
    vensure!(r.invocations.len() == wk.invoked, "conn-invocations", "handler invoked {} times, expected {} (requests on the connection: {}, kinds {:?})", r.invocations.len(), wk.invoked, c.reqs.len(), b.kinds);
    let ids: Vec<u16> = c.reqs.iter().map(|q| q.pre.id).collect();
    let view = view_log(&w.log)?;
    // (when a handler returns an I/O error the connection is dropped on the spot: a management
    // reply whose flush was interrupted by a cancelled read may then remain cut off)
    let dropped_on_handler_error = wk.ends.last().is_some_and(|e| e.is_none());
    vensure!(view.complete_len == view.total_len || dropped_on_handler_error, "conn-partial-record", "byte log ends with an incomplete record ({} of {} bytes decoded)", view.complete_len, view.total_len);
    // the two stream-end records are optional for aborted requests (only the single EndRequest is stated)
    let g = check_grammar(&view, &ids, &|i| b.kinds.get(i).is_some_and(|k| *k != Kind::Normal))?;
    let mut j = 0usize; // invocation index
    let mut ended = 0usize;
    for i in 0..wk.reached {
        let q = &c.reqs[i];
        let me = &m.reqs[i];
        match wk.ends[i] {
            Some(want) => {
                vensure!(g.ended > ended, "conn-missing-endrequest", "request #{i} (id {}, {:?}): no EndRequest on the log ({} found so far)", q.pre.id, b.kinds[i], g.ended);
                vensure!(g.end_status[ended] == want, "conn-endrequest-status", "request #{i} ({:?}): EndRequest carries (protocol {}, app {:#x}), expected ({}, {:#x})", b.kinds[i], g.end_status[ended].0, g.end_status[ended].1, want.0, want.1);
                ended += 1;
            },
            None => {},
        }
        if b.kinds[i] == Kind::ParamsAbort {
            vensure!(g.data[i].2 == 0, "conn-output-for-aborted", "request #{i} was aborted during Params but has output records");
            continue;
        }
        let Some(inv) = r.invocations.get(j) else { break };
        j += 1;
        vensure!(inv.role == me.model.role && inv.flags == me.model.flags, "conn-request-fields", "request #{i}: handler saw role {} flags {:#x}, sent role {} flags {:#x}", inv.role, inv.flags, me.model.role, me.model.flags);
        vensure!(inv.env == me.model.env, "conn-request-env", "request #{i}: handler saw {} variables, model {} (missing or different: {:?})", inv.env.len(), me.model.env.len(), me.model.env.iter().find(|(k, v)| inv.env.get(*k) != Some(v)).map(|(k, _)| k));
        for (s, got) in &inv.reads {
            let Some(want) = me.streams.content.get(s) else { vfail!("conn-read-foreign-stream", "request #{i}: handler read {} bytes while stream {s} was active, which the role does not have", got.len()) };
            vensure!(got.len() <= want.len() && want[..got.len()] == got[..], "conn-read-content", "request #{i}: bytes read from stream {s} are not a prefix of what the client sent ({} read, {} sent, first difference {:?})", got.len(), want.len(), got.iter().zip(want.iter()).position(|(a, b)| a != b));
            if inv.eof_seen.get(s) == Some(&true) {
                vensure!(got.len() == want.len() && me.streams.end_rec.contains_key(s), "conn-read-early-eof", "request #{i}: end-of-file on stream {s} after {} of {} bytes (stream ended by the client: {})", got.len(), want.len(), me.streams.end_rec.contains_key(s));
            }
        }
        vensure!(!inv.data_after_eof, "conn-eof-not-persistent", "request #{i}: data returned after end-of-file");
        let aborted = b.kinds[i] == Kind::StreamAbort;
        for (st, k) in &inv.read_errors {
            vensure!(aborted && *k == std::io::ErrorKind::ConnectionAborted, "conn-unexpected-io-error", "request #{i}: input operation failed with {k:?} (active stream {st:?}) on a fault-free transport; request aborted by the client: {aborted}");
        }
        vensure!(inv.write_errors.is_empty(), "conn-unexpected-io-error", "request #{i}: output operation failed on a fault-free transport: {:?}", inv.write_errors);
        // handler output: concatenation per stream equals the accepted writes
        let mut so = Vec::new();
        let mut se = Vec::new();
        for (ty, bytes) in &inv.writes {
            if *ty == wire::T_STDERR { se.extend_from_slice(bytes) } else { so.extend_from_slice(bytes) }
        }
        vensure!(g.data[i].0 == so, "conn-stdout-content", "request #{i}: stdout records carry {} bytes, handler's successful writes total {}", g.data[i].0.len(), so.len());
        vensure!(g.data[i].1 == se, "conn-stderr-content", "request #{i}: stderr records carry {} bytes, handler's successful writes total {}", g.data[i].1.len(), se.len());
    }
    vensure!(g.ended == ended, "conn-endrequest-count", "{} EndRequest records for real requests, expected {ended}", g.ended);
    // management replies: in arrival order, nothing else, and at least everything owed for
    // records up to the last preamble the server dealt with (records behind it may still sit
    // unprocessed in the buffer when the connection ends; C08 decides when that is acceptable)
    let all_served = wk.reached == c.reqs.len() && wk.ends.last().is_some_and(|e| e.is_some()) && c.reqs[wk.reached - 1].pre.flags & 1 == 1;
    if all_served {
        vensure!(w.eof_delivered, "conn-early-exit", "connection task ended before the peer closed a reusable connection");
    }
    let covered = model::match_replies_prefix(&m.e1, &g.mgmt).map_err(|e| Fail::new("conn-mgmt-replies", e))?;
    // (a connection that is torn down because the handler failed may take replies it had deferred
    // with it: then only the records in front of the last *answered* request count)
    let last_answered = wk.ends.iter().rposition(|e| e.is_some());
    let last_pre_end = match (dropped_on_handler_error, last_answered) {
        (false, _) => b.spans[wk.reached - 1].1,
        (true, Some(i)) => b.spans[i].1,
        (true, None) => 0,
    };
    let must = m.e1.iter().take_while(|e| e.cause < last_pre_end).count();
    let must_mand = model::mandatory(&m.e1[..must]);
    vensure!(covered >= must || model::mandatory(&m.e1[..covered]) >= must_mand, "conn-mgmt-replies-missing", "only {covered} of the {must} replies owed for records up to the last served preamble were written");
    Ok(Verdict { served: wk.invoked, short_reads: w.short_reads, short_writes: w.short_writes })
}

// ---------------------------------------------------------------------------------------------
// strategies

pub fn read_script() -> BoxedStrategy<Vec<RStep>> {
    let step = prop_oneof![4 => prop_oneof![1u16..=9, 1u16..=200, Just(u16::MAX)].prop_map(RStep::Give), 1 => Just(RStep::Pending)];
    prop_oneof![
        2 => Just(vec![RStep::Give(u16::MAX)]),
        1 => Just(vec![RStep::Give(1)]),
        4 => proptest::collection::vec(step, 1..7),
    ]
    .prop_map(|mut v| {
        if !v.iter().any(|s| matches!(s, RStep::Give(_))) {
            v.push(RStep::Give(7));
        }
        v
    })
    .boxed()
}

pub fn write_script() -> BoxedStrategy<Vec<WStep>> {
    let step = prop_oneof![4 => prop_oneof![1u16..=9, 1u16..=200, Just(u16::MAX)].prop_map(WStep::Accept), 1 => Just(WStep::Pending)];
    prop_oneof![
        2 => Just(vec![WStep::Accept(u16::MAX)]),
        1 => Just(vec![WStep::Accept(1)]),
        4 => proptest::collection::vec(step, 1..7),
    ]
    .prop_map(|mut v| {
        if !v.iter().any(|s| matches!(s, WStep::Accept(_))) {
            v.push(WStep::Accept(5));
        }
        v
    })
    .boxed()
}

pub fn status() -> BoxedStrategy<Status> {
    prop_oneof![
        3 => Just(Status::Complete(0)),
        2 => prop_oneof![Just(1u32), Just(u32::MAX), Just(wire::ABRT), any::<u32>()].prop_map(Status::Complete),
        1 => Just(Status::Overloaded),
        1 => Just(Status::UnknownRole),
    ]
    .boxed()
}

pub fn hop(allow_err: bool) -> BoxedStrategy<HOp> {
    let wlen = prop_oneof![3 => 1u32..=40, 2 => 40u32..=2000, 1 => prop_oneof![Just(65535u32), Just(65536), Just(70000)], 1 => Just(0u32)];
    let base = prop_oneof![
        3 => prop_oneof![Just(0u16), 1u16..=9, 1u16..=600, Just(u16::MAX)].prop_map(HOp::Read),
        2 => prop_oneof![1u16..=9, 10u16..=700].prop_map(|cap| HOp::ReadToEnd { cap }),
        1 => (prop_oneof![1u16..=9, 10u16..=700], 0u8..3).prop_map(|(cap, polls)| HOp::ReadCancel { cap, polls }),
        3 => prop_oneof![Just(0u16), 1u16..=9, 1u16..=600, Just(u16::MAX)].prop_map(HOp::FillConsume),
        1 => Just(HOp::NextStream),
        1 => Just(HOp::AwaitWriteable),
        3 => (any::<bool>(), wlen.clone()).prop_map(|(stderr, len)| HOp::Write { stderr, len }),
        1 => (any::<bool>(), wlen).prop_map(|(stderr, len)| HOp::WriteAll { stderr, len }),
        1 => any::<bool>().prop_map(|stderr| HOp::Flush { stderr }),
    ];
    if allow_err {
        prop_oneof![
            20 => base,
            2 => status().prop_map(HOp::Return),
            1 => prop_oneof![Just(FaultKind::BrokenPipe), Just(FaultKind::Other), Just(FaultKind::TimedOut)].prop_map(HOp::ReturnErr),
        ]
        .boxed()
    } else {
        prop_oneof![20 => base, 2 => status().prop_map(HOp::Return)].boxed()
    }
}

pub fn handler_script(allow_err: bool) -> BoxedStrategy<Vec<HOp>> {
    (proptest::collection::vec(hop(allow_err), 0..8), prop::option::weighted(0.7, status()))
        .prop_map(|(mut ops, fin)| {
            if let Some(s) = fin {
                ops.push(HOp::Return(s));
            }
            ops
        })
        .boxed()
}

/// Noise a single-request client may send (constructed, not filtered: kinds whose reply depends
/// on the protocol phase are mapped onto harmless ones).
pub fn mgmt_noise(max_pair: u32) -> BoxedStrategy<Noise> {
    traffic::noise(max_pair)
        .prop_map(|n| match n {
            Noise::ForeignBegin { id_delta, role, flags, pad } if (1..=3).contains(&role) => Noise::ForeignBegin { id_delta, role: role + 3, flags, pad },
            Noise::DupBegin { flags, pad, .. } => Noise::ClientOutput { ty: flags % 5, id: flags as u16, len: pad as u16, pad },
            Noise::StaleParams { len, pad } => Noise::UnknownType { ty: pad, id: 0, len, pad },
            other => other,
        })
        .boxed()
}

pub fn conn_req(keep_weight: f64, allow_err: bool, wait_mgmt: BoxedStrategy<bool>) -> BoxedStrategy<ConnReq> {
    (prop_oneof![4 => Just(1u16), 1 => Just(2u16), 3 => Just(3u16)], wait_mgmt)
        .prop_flat_map(move |(role, wait_mgmt)| {
            (
                traffic::preamble_spec(5, 200).prop_map(move |mut p| {
                    p.role = role;
                    p
                }),
                prop::bool::weighted(keep_weight),
                any::<u8>(),
                proptest::collection::vec((any::<u16>(), mgmt_noise(40)), 0..3),
                traffic::body_spec(role, 0, 40, true),
                proptest::collection::vec((any::<u16>(), mgmt_noise(40)), 0..3),
                proptest::collection::vec(mgmt_noise(40), 0..2),
                handler_script(allow_err),
                Just(wait_mgmt),
                proptest::collection::vec(any::<u16>(), 0..3),
            )
        })
        .prop_map(|(mut pre, keep, other_flags, pre_noise, mut body, body_noise, after, handler, wait_mgmt, bursts)| {
            pre.flags = (other_flags & !1) | keep as u8;
            if other_flags % 3 != 0 {
                pre.flags &= 1; // mostly standard flag bytes
            }
            body.noise = body_noise;
            ConnReq { pre, pre_noise, body, after, handler, wait_mgmt, bursts, abort: None }
        })
        .boxed()
}

pub fn conn_case(max_reqs: usize, allow_err: bool, wait_mgmt: BoxedStrategy<bool>) -> BoxedStrategy<ConnCase> {
    (
        proptest::collection::vec(conn_req(0.8, allow_err, wait_mgmt), 1..=max_reqs),
        proptest::collection::vec(mgmt_noise(40), 0..2),
        read_script(),
        write_script(),
        any::<bool>(),
        prop_oneof![4 => Just(0u32), 4 => Just(64u32), 4 => Just(8192u32), 2 => 24u32..600, 1 => Just(70000u32), 1 => Just(131072u32), 1 => Just(200000u32)],
        prop_oneof![Just(1u32), 1u32..1000],
        any::<bool>(),
    )
        .prop_map(|(reqs, tail, read_script, write_script, vectored, buf, max_conns, propagate)| {
            // derived (keeps the tuple arity): how the transport's flush behaves
            let flush_script = match (max_conns as usize + reqs.len() + write_script.len()) % 5 {
                0 => vec![true, false],
                1 => vec![false, true, true],
                _ => Vec::new(),
            };
            ConnCase { reqs, tail, read_script, write_script, vectored, buf, max_conns, propagate, pipelined: false, flush_script }
        })
        .boxed()
}

#[allow(dead_code)]
fn _unused() {
    let _ = gen::idx(0, 1);
}
