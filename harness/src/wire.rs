//! Independent FastCGI wire codec (shares no code with the crate under test).

use serde::{Deserialize, Serialize};

pub const T_BEGIN: u8 = 1;
pub const T_ABORT: u8 = 2;
pub const T_END: u8 = 3;
pub const T_PARAMS: u8 = 4;
pub const T_STDIN: u8 = 5;
pub const T_STDOUT: u8 = 6;
pub const T_STDERR: u8 = 7;
pub const T_DATA: u8 = 8;
pub const T_GETVALUES: u8 = 9;
pub const T_GETVALUES_RESULT: u8 = 10;
pub const T_UNKNOWN: u8 = 11;

pub const ST_COMPLETE: u8 = 0;
pub const ST_CANT_MPX: u8 = 1;
pub const ST_OVERLOADED: u8 = 2;
pub const ST_UNKNOWN_ROLE: u8 = 3;

pub const ROLE_RESPONDER: u16 = 1;
pub const ROLE_AUTHORIZER: u16 = 2;
pub const ROLE_FILTER: u16 = 3;

pub const ABRT: u32 = 0x4142_5254;

/// Input stream types of a role, in order.
pub fn role_streams(role: u16) -> &'static [u8] {
    match role {
        ROLE_RESPONDER => &[T_STDIN],
        ROLE_FILTER => &[T_STDIN, T_DATA],
        _ => &[],
    }
}

// ---------------------------------------------------------------------------------------------
// varint / name-value pairs

pub fn enc_varint(v: u32, out: &mut Vec<u8>) {
    assert!(v < (1 << 31));
    if v < 128 {
        out.push(v as u8);
    } else {
        out.push(0x80 | (v >> 24) as u8);
        out.push((v >> 16) as u8);
        out.push((v >> 8) as u8);
        out.push(v as u8);
    }
}

/// Forces the four-byte form even for small values (legal on the wire).
pub fn enc_varint_long(v: u32, out: &mut Vec<u8>) {
    assert!(v < (1 << 31));
    out.push(0x80 | (v >> 24) as u8);
    out.push((v >> 16) as u8);
    out.push((v >> 8) as u8);
    out.push(v as u8);
}

/// Returns (value, bytes used) or None when truncated.
pub fn dec_varint(b: &[u8]) -> Option<(u32, usize)> {
    let first = *b.first()?;
    if first & 0x80 == 0 {
        Some((first as u32, 1))
    } else if b.len() >= 4 {
        let v = ((first as u32 & 0x7f) << 24) | ((b[1] as u32) << 16) | ((b[2] as u32) << 8) | b[3] as u32;
        Some((v, 4))
    } else {
        None
    }
}

pub fn enc_pair(name: &[u8], value: &[u8], out: &mut Vec<u8>) {
    enc_varint(name.len() as u32, out);
    enc_varint(value.len() as u32, out);
    out.extend_from_slice(name);
    out.extend_from_slice(value);
}

/// Encodes with explicit choice of long form for either length.
pub fn enc_pair_forms(name: &[u8], value: &[u8], long_n: bool, long_v: bool, out: &mut Vec<u8>) {
    if long_n { enc_varint_long(name.len() as u32, out) } else { enc_varint(name.len() as u32, out) }
    if long_v { enc_varint_long(value.len() as u32, out) } else { enc_varint(value.len() as u32, out) }
    out.extend_from_slice(name);
    out.extend_from_slice(value);
}

/// Decodes complete pairs; returns ((name range, value range) list as offsets, offset of undecoded suffix).
pub fn dec_pairs(b: &[u8]) -> (Vec<((usize, usize), (usize, usize))>, usize) {
    let mut pos = 0usize;
    let mut out = Vec::new();
    loop {
        let rest = &b[pos..];
        let Some((nl, u1)) = dec_varint(rest) else { break };
        let Some((vl, u2)) = dec_varint(&rest[u1..]) else { break };
        let head = u1 + u2;
        let need = head as u64 + nl as u64 + vl as u64;
        if (rest.len() as u64) < need {
            break;
        }
        let ns = pos + head;
        let vs = ns + nl as usize;
        out.push(((ns, vs), (vs, vs + vl as usize)));
        pos = vs + vl as usize;
    }
    (out, pos)
}

pub fn dec_pairs_owned(b: &[u8]) -> (Vec<(Vec<u8>, Vec<u8>)>, usize) {
    let (r, rest) = dec_pairs(b);
    (r.into_iter().map(|(n, v)| (b[n.0..n.1].to_vec(), b[v.0..v.1].to_vec())).collect(), rest)
}

// ---------------------------------------------------------------------------------------------
// records

/// A record as sent by the client (version is always 1 unless `version` overrides).
#[derive(Clone, Debug, PartialEq, Eq, Serialize, Deserialize)]
pub struct Rec {
    pub ty: u8,
    pub id: u16,
    #[serde(with = "hexbytes")]
    pub payload: Vec<u8>,
    pub pad: u8,
}

impl Rec {
    pub fn new(ty: u8, id: u16, payload: Vec<u8>, pad: u8) -> Self {
        assert!(payload.len() <= 0xffff);
        Self { ty, id, payload, pad }
    }
    pub fn wire_len(&self) -> usize {
        8 + self.payload.len() + self.pad as usize
    }
    pub fn encode(&self, out: &mut Vec<u8>) {
        let l = self.payload.len();
        out.extend_from_slice(&[
            1, self.ty, (self.id >> 8) as u8, self.id as u8, (l >> 8) as u8, l as u8, self.pad,
            0x5a, // reserved byte: receivers must ignore it
        ]);
        out.extend_from_slice(&self.payload);
        // Padding content is arbitrary; use bytes that would be noticed if interpreted
        // (0x01 looks like a version byte, so vary the pattern).
        for i in 0..self.pad {
            out.push(0xa0 | (i & 0x0f));
        }
    }
}

pub fn encode_all(recs: &[Rec]) -> Vec<u8> {
    let mut out = Vec::with_capacity(recs.iter().map(Rec::wire_len).sum());
    for r in recs {
        r.encode(&mut out);
    }
    out
}

pub fn begin_body(role: u16, flags: u8) -> Vec<u8> {
    vec![(role >> 8) as u8, role as u8, flags, 0x11, 0x22, 0x33, 0x44, 0x55]
}

/// A record as received from the server.
#[derive(Clone, Debug, PartialEq, Eq)]
pub struct OutRec {
    pub ty: u8,
    pub id: u16,
    pub payload: Vec<u8>,
    pub pad: Vec<u8>,
    pub reserved: u8,
    /// Offset of the record's first byte in the byte log.
    pub at: usize,
}

/// Decodes a server byte log into complete records; returns the records and the offset at which
/// an incomplete trailing record (if any) starts. A header with a version other than 1 is an error.
pub fn decode_log(b: &[u8]) -> Result<(Vec<OutRec>, usize), String> {
    let mut pos = 0;
    let mut out = Vec::new();
    while b.len() - pos >= 8 {
        let h = &b[pos..pos + 8];
        if h[0] != 1 {
            return Err(format!("record at offset {pos} has version {}", h[0]));
        }
        let len = ((h[4] as usize) << 8) | h[5] as usize;
        let pad = h[6] as usize;
        if b.len() - pos < 8 + len + pad {
            break;
        }
        out.push(OutRec {
            ty: h[1],
            id: ((h[2] as u16) << 8) | h[3] as u16,
            payload: b[pos + 8..pos + 8 + len].to_vec(),
            pad: b[pos + 8 + len..pos + 8 + len + pad].to_vec(),
            reserved: h[7],
            at: pos,
        });
        pos += 8 + len + pad;
    }
    Ok((out, pos))
}

/// Semantic view of a server reply.
#[derive(Clone, Debug, PartialEq, Eq, PartialOrd, Ord)]
pub enum Reply {
    /// FCGI_UNKNOWN_TYPE echoing `ty`, carried on request id `id`.
    Unknown { id: u16, ty: u8 },
    /// FCGI_END_REQUEST
    End { id: u16, proto: u8, app: u32 },
    /// FCGI_GET_VALUES_RESULT: sorted (name, value) list
    Values { pairs: Vec<(Vec<u8>, Vec<u8>)> },
    /// Output stream record (stdout/stderr)
    Stream { ty: u8, id: u16, payload: Vec<u8> },
}

/// Strictly validates one server record and converts it to a `Reply`.
pub fn classify_out(r: &OutRec) -> Result<Reply, String> {
    if r.reserved != 0 {
        return Err(format!("record at {} has non-zero reserved header byte", r.at));
    }
    if r.pad.iter().any(|&b| b != 0) {
        return Err(format!("record at {} has non-zero padding bytes", r.at));
    }
    match r.ty {
        T_UNKNOWN => {
            if r.payload.len() != 8 || r.payload[1..].iter().any(|&b| b != 0) {
                return Err(format!("malformed UnknownType body at {}: {:?}", r.at, r.payload));
            }
            Ok(Reply::Unknown { id: r.id, ty: r.payload[0] })
        },
        T_END => {
            if r.payload.len() != 8 || r.payload[5..].iter().any(|&b| b != 0) {
                return Err(format!("malformed EndRequest body at {}: {:?}", r.at, r.payload));
            }
            let app = u32::from_be_bytes([r.payload[0], r.payload[1], r.payload[2], r.payload[3]]);
            Ok(Reply::End { id: r.id, proto: r.payload[4], app })
        },
        T_GETVALUES_RESULT => {
            if r.id != 0 {
                return Err(format!("GetValuesResult at {} with request id {}", r.at, r.id));
            }
            let (pairs, used) = dec_pairs_owned(&r.payload);
            if used != r.payload.len() {
                return Err(format!("GetValuesResult at {} has trailing garbage", r.at));
            }
            let mut pairs = pairs;
            pairs.sort();
            Ok(Reply::Values { pairs })
        },
        T_STDOUT | T_STDERR => Ok(Reply::Stream { ty: r.ty, id: r.id, payload: r.payload.clone() }),
        t => Err(format!("server emitted record of type {t} at {}", r.at)),
    }
}

/// Decodes a complete reply byte string (must contain only complete records).
pub fn decode_replies(b: &[u8]) -> Result<Vec<Reply>, String> {
    let (recs, used) = decode_log(b)?;
    if used != b.len() {
        return Err(format!("{} trailing bytes do not form a complete record", b.len() - used));
    }
    recs.iter().map(classify_out).collect()
}

// ---------------------------------------------------------------------------------------------
// serde helper: Vec<u8> as hex string (compact replay files)

pub mod hexbytes {
    use serde::{Deserialize, Deserializer, Serializer};

    pub fn to_hex(b: &[u8]) -> String {
        const H: &[u8; 16] = b"0123456789abcdef";
        let mut s = String::with_capacity(b.len() * 2);
        for &x in b {
            s.push(H[(x >> 4) as usize] as char);
            s.push(H[(x & 15) as usize] as char);
        }
        s
    }

    pub fn from_hex(s: &str) -> Result<Vec<u8>, String> {
        if s.len() % 2 != 0 {
            return Err("odd hex length".into());
        }
        let n = |c: u8| match c {
            b'0'..=b'9' => Ok(c - b'0'),
            b'a'..=b'f' => Ok(c - b'a' + 10),
            b'A'..=b'F' => Ok(c - b'A' + 10),
            _ => Err("bad hex digit".to_string()),
        };
        s.as_bytes().chunks(2).map(|c| Ok(n(c[0])? << 4 | n(c[1])?)).collect()
    }

    pub fn serialize<S: Serializer>(b: &Vec<u8>, s: S) -> Result<S::Ok, S::Error> {
        s.serialize_str(&to_hex(b))
    }

    pub fn deserialize<'de, D: Deserializer<'de>>(d: D) -> Result<Vec<u8>, D::Error> {
        let s = String::deserialize(d)?;
        from_hex(&s).map_err(serde::de::Error::custom)
    }
}

/// Newtype for byte strings in case descriptions.
#[derive(Clone, PartialEq, Eq, Hash, Default)]
pub struct Hex(pub Vec<u8>);

impl Hex {
    /// Short printable form for messages.
    pub fn dbg(&self) -> String {
        if self.0.len() <= 64 {
            format!("x\"{}\"", hexbytes::to_hex(&self.0))
        } else {
            format!("x\"{}...\"({} bytes)", hexbytes::to_hex(&self.0[..48]), self.0.len())
        }
    }
}

impl std::fmt::Debug for Hex {
    fn fmt(&self, f: &mut std::fmt::Formatter<'_>) -> std::fmt::Result {
        write!(f, "x\"{}\"", hexbytes::to_hex(&self.0))
    }
}
impl Serialize for Hex {
    fn serialize<S: serde::Serializer>(&self, s: S) -> Result<S::Ok, S::Error> {
        hexbytes::serialize(&self.0, s)
    }
}
impl<'de> Deserialize<'de> for Hex {
    fn deserialize<D: serde::Deserializer<'de>>(d: D) -> Result<Self, D::Error> {
        hexbytes::deserialize(d).map(Hex)
    }
}
