fn main(){ println!("hi"); }
