//! verif-check <ID> quick|thorough        run the checks of one property
//! verif-check --replay <file>            re-run one saved case
//! verif-check <ID> <tier> --sub <name>   run a single sub-check (no evidence written)


use fcgi_verif::engine::{self, Ctx, Tier};
use fcgi_verif::props;

fn main() {
    engine::install_panic_hook();
    engine::install_tracing();
    let args: Vec<String> = std::env::args().skip(1).collect();
    let all = props::all();

    if let Some(i) = args.iter().position(|a| a == "--replay") {
        let Some(path) = args.get(i + 1) else {
            eprintln!("--replay needs a file");
            std::process::exit(2);
        };
        std::process::exit(engine::replay_file(&all, path));
    }
    if args.first().map(String::as_str) == Some("--emit-seeds") {
        let dir = args.get(1).cloned().unwrap_or_else(|| "/verif/fuzz/seeds".to_string());
        props::emit_fuzz_seeds(&dir, 48);
        return;
    }
    if args.first().map(String::as_str) == Some("--list") {
        for p in &all {
            for s in &p.subs {
                println!("{} {}", p.id, s.name());
            }
        }
        return;
    }

    let Some(id) = args.first() else {
        eprintln!("usage: verif-check <ID> quick|thorough [--sub name] | --replay <file> | --list");
        std::process::exit(2);
    };
    let tier = match std::env::var("VERIF_TIER").ok().as_deref().or(args.get(1).map(String::as_str)) {
        Some("thorough") => Tier::Thorough,
        _ => Tier::Quick,
    };
    // An explicit tier argument wins over the environment.
    let tier = match args.get(1).map(String::as_str) {
        Some("thorough") => Tier::Thorough,
        Some("quick") => Tier::Quick,
        _ => tier,
    };
    let seed = std::env::var("VERIF_SEED").ok().and_then(|s| s.trim().parse::<u64>().ok()).unwrap_or(20260925);
    let shards = std::env::var("VERIF_SHARDS")
        .ok()
        .and_then(|s| s.parse().ok())
        .unwrap_or_else(|| std::thread::available_parallelism().map_or(8, |n| n.get()).min(16));
    let scale = std::env::var("VERIF_SCALE").ok().and_then(|s| s.parse().ok()).unwrap_or(1.0);
    let only_sub = args.iter().position(|a| a == "--sub").and_then(|i| args.get(i + 1)).cloned();

    let Some(p) = all.iter().find(|p| p.id == id.as_str()) else {
        eprintln!("unknown property {id}");
        std::process::exit(2);
    };
    let ctx = Ctx { tier, seed, shards, scale };
    let code = engine::run_property(p, &ctx, only_sub.as_deref());
    std::process::exit(code);
}
