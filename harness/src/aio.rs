//! Deterministic async test bed: scripted mock transport, closed-loop peer, single-threaded
//! executor that polls only woken tasks, and a scripted handler interpreter.

use std::collections::BTreeMap;
use std::future::Future;
use std::io;
use std::pin::Pin;
use std::sync::atomic::{AtomicBool, AtomicUsize, Ordering};
use std::sync::{Arc, Mutex};
use std::task::{Context, Poll, Wake, Waker};

use futures_util::future::BoxFuture;
use futures_util::io::{AsyncBufReadExt, AsyncRead, AsyncReadExt, AsyncWrite, AsyncWriteExt};
use serde::{Deserialize, Serialize};

use fastcgi_server::async_io::Request;
use fastcgi_server::protocol::RecordType;
use fastcgi_server::ExitStatus;

use crate::gen;
use crate::wire;

// ---------------------------------------------------------------------------------------------
// scripts

#[derive(Clone, Debug, Serialize, Deserialize, PartialEq, Eq, Hash)]
pub enum RStep {
    /// deliver at most n of the available bytes
    Give(u16),
    /// report not-ready once (and wake immediately: a legal spurious Pending)
    Pending,
}

#[derive(Clone, Debug, Serialize, Deserialize, PartialEq, Eq, Hash)]
pub enum WStep {
    Accept(u16),
    Pending,
}

#[derive(Clone, Debug, Serialize, Deserialize, PartialEq, Eq, Hash)]
pub enum Cond {
    /// release immediately
    Now,
    /// wait until at least n EndRequest records for a real request (RequestComplete, Overloaded,
    /// UnknownRole-by-handler... i.e. any EndRequest carrying request id `id`) were written
    EndSeen { id: u16, n: u16 },
    /// wait until at least n management replies (GetValuesResult / UnknownType) were written
    MgmtReplies(u16),
    /// all of these
    All(Vec<Cond>),
}

#[derive(Clone, Debug, Serialize, Deserialize, PartialEq, Eq, Hash)]
pub enum IoFault {
    None,
    /// the transport reports end-of-file after this many client bytes
    EofAt(u32),
    /// the read call with this index (0-based, counting calls with a non-empty buffer) fails
    ReadErr { call: u32, kind: FaultKind },
    /// the write call with this index fails
    WriteErr { call: u32, kind: FaultKind },
    /// the write call with this index accepts zero bytes
    WriteZero { call: u32 },
}

#[derive(Clone, Copy, Debug, Serialize, Deserialize, PartialEq, Eq, Hash)]
pub enum FaultKind {
    BrokenPipe,
    ConnectionReset,
    TimedOut,
    Other,
}

impl FaultKind {
    pub fn kind(self) -> io::ErrorKind {
        match self {
            FaultKind::BrokenPipe => io::ErrorKind::BrokenPipe,
            FaultKind::ConnectionReset => io::ErrorKind::ConnectionReset,
            FaultKind::TimedOut => io::ErrorKind::TimedOut,
            FaultKind::Other => io::ErrorKind::Other,
        }
    }
}

// ---------------------------------------------------------------------------------------------
// world: everything the mock transport and the peer share

pub struct World {
    pub client: Vec<u8>,
    /// (end offset of the release, condition under which it becomes available)
    pub releases: Vec<(usize, Cond)>,
    pub next_release: usize,
    /// bytes the peer is willing to send (its release conditions hold)
    pub releasable: usize,
    /// bytes that have become visible to the reader
    pub released: usize,
    pub read_pos: usize,
    /// the peer closes the connection once everything has been read
    pub close_at_end: bool,
    pub read_script: Vec<RStep>,
    pub read_step: usize,
    pub read_calls: usize,
    pub reader_waker: Option<Waker>,
    pub fault: IoFault,
    pub eof_delivered: bool,
    pub eof_visible: bool,
    /// reads issued with a zero-length buffer (answered Ok(0) like a socket would)
    pub zero_len_reads: usize,

    pub log: Vec<u8>,
    pub write_script: Vec<WStep>,
    pub write_step: usize,
    pub write_calls: usize,
    pub vectored: bool,
    pub failed_write_at_log_len: Option<usize>,
    pub flush_calls: usize,

    // incremental scan of the log for peer conditions
    scan_pos: usize,
    pub ends_seen: BTreeMap<u16, usize>,
    pub mgmt_replies: usize,

    pub transport_events: u64,
    pub saw_read_pending: bool,
    pub saw_write_pending: bool,
    pub short_reads: usize,
    pub short_writes: usize,
    /// (log length, read_pos) snapshots taken whenever the reader had to park
    pub parks: Vec<(usize, usize)>,
    /// index of the task poll (set by the executor loop) in which each park happened
    pub park_polls: Vec<usize>,
    /// read position of the latest reader park in the task poll now running, if the task has not
    /// been told to wait for the *writer* since
    pub poll_park: Option<usize>,
    /// suspension points: (bytes on the log, client bytes handed out) at the end of every task
    /// poll that returned Pending after its last transport operation had been a read that found
    /// nothing - the task is then waiting for input
    pub suspensions: Vec<(usize, usize)>,
    /// readiness of the transport's `poll_flush`, cyclic: true = not ready once (with a wake-up);
    /// empty = always ready
    pub flush_script: Vec<bool>,
    pub flush_pendings: usize,
    pub cur_poll: usize,
}

impl World {
    pub fn new(client: Vec<u8>, releases: Vec<(usize, Cond)>, read_script: Vec<RStep>, write_script: Vec<WStep>, vectored: bool, fault: IoFault) -> Self {
        let mut w = World {
            client, releases, next_release: 0, releasable: 0, released: 0, read_pos: 0, close_at_end: true,
            read_script: if read_script.is_empty() { vec![RStep::Give(u16::MAX)] } else { read_script },
            read_step: 0, read_calls: 0, reader_waker: None, fault, eof_delivered: false, eof_visible: false, zero_len_reads: 0,
            log: Vec::new(),
            write_script: if write_script.is_empty() { vec![WStep::Accept(u16::MAX)] } else { write_script },
            write_step: 0, write_calls: 0, vectored, failed_write_at_log_len: None, flush_calls: 0,
            scan_pos: 0, ends_seen: BTreeMap::new(), mgmt_replies: 0,
            transport_events: 0, saw_read_pending: false, saw_write_pending: false, short_reads: 0, short_writes: 0,
            parks: Vec::new(),
            park_polls: Vec::new(),
            poll_park: None,
            suspensions: Vec::new(),
            flush_script: Vec::new(),
            flush_pendings: 0,
            cur_poll: 0,
        };
        w.peer_update();
        w
    }

    fn cond_holds(&self, c: &Cond) -> bool {
        match c {
            Cond::Now => true,
            Cond::EndSeen { id, n } => self.ends_seen.get(id).copied().unwrap_or(0) >= *n as usize,
            Cond::MgmtReplies(n) => self.mgmt_replies >= *n as usize,
            Cond::All(v) => v.iter().all(|c| self.cond_holds(c)),
        }
    }

    /// Scans newly written complete records and releases whatever the peer may now send.
    pub fn peer_update(&mut self) {
        while self.log.len() - self.scan_pos >= 8 {
            let h = &self.log[self.scan_pos..self.scan_pos + 8];
            let len = ((h[4] as usize) << 8) | h[5] as usize;
            let total = 8 + len + h[6] as usize;
            if self.log.len() - self.scan_pos < total {
                break;
            }
            let id = ((h[2] as u16) << 8) | h[3] as u16;
            match h[1] {
                wire::T_END => *self.ends_seen.entry(id).or_insert(0) += 1,
                wire::T_GETVALUES_RESULT | wire::T_UNKNOWN => self.mgmt_replies += 1,
                _ => {},
            }
            self.scan_pos += total;
        }
        while self.next_release < self.releases.len() && self.cond_holds(&self.releases[self.next_release].1.clone()) {
            self.releasable = self.releases[self.next_release].0;
            self.next_release += 1;
        }
        if let IoFault::EofAt(k) = self.fault {
            self.releasable = self.releasable.min(k as usize);
        }
        // A parked reader is woken as soon as there is something for it (data or end-of-file).
        // Otherwise the newly sendable bytes only become visible at the reader's next park: the
        // peer reacts to what it has seen, it does not anticipate.
        if self.reader_waker.is_some() {
            if self.releasable > self.released {
                self.released = self.releasable;
                self.reader_waker.take().unwrap().wake();
            } else if self.close_due() {
                self.eof_visible = true;
                self.reader_waker.take().unwrap().wake();
            }
        }
    }

    pub fn all_released(&self) -> bool {
        self.next_release >= self.releases.len()
    }

    /// The peer is holding data back until the server writes something.
    pub fn peer_waiting(&self) -> bool {
        !self.all_released()
    }

    fn eof_now(&self) -> bool {
        self.eof_now_with(self.released)
    }

    fn eof_now_with(&self, released: usize) -> bool {
        if let IoFault::EofAt(k) = self.fault {
            if self.read_pos >= k as usize {
                return true;
            }
        }
        self.close_at_end && self.eof_visible && self.all_released() && released >= self.releasable && self.read_pos >= released
    }

    /// The peer has nothing more to send and will close: becomes visible at a park.
    fn close_due(&self) -> bool {
        self.close_at_end && !self.eof_visible && self.all_released() && self.released >= self.releasable && self.read_pos >= self.released
    }
}

pub type Shared = Arc<Mutex<World>>;

pub struct MockReader(pub Shared);
pub struct MockWriter(pub Shared);

impl AsyncRead for MockReader {
    fn poll_read(self: Pin<&mut Self>, cx: &mut Context<'_>, buf: &mut [u8]) -> Poll<io::Result<usize>> {
        let mut w = self.0.lock().unwrap();
        if buf.is_empty() {
            w.zero_len_reads += 1;
            if std::env::var_os("VERIF_DEBUG").is_some() {
                eprintln!("zero-length read: read_pos={} log_len={} read_calls={}", w.read_pos, w.log.len(), w.read_calls);
            }
            return Poll::Ready(Ok(0));
        }
        let call = w.read_calls;
        w.read_calls += 1;
        w.transport_events += 1;
        if let IoFault::ReadErr { call: c, kind } = w.fault {
            if c as usize == call {
                return Poll::Ready(Err(kind.kind().into()));
            }
        }
        let avail = w.released - w.read_pos;
        if avail == 0 {
            if w.eof_now() {
                w.eof_delivered = true;
                return Poll::Ready(Ok(0));
            }
            // Nothing to read right now: the task is about to wait for the client.
            let snap = (w.log.len(), w.read_pos);
            w.parks.push(snap);
            let cp = w.cur_poll;
            w.park_polls.push(cp);
            w.poll_park = Some(snap.1);
            if w.releasable > w.released {
                // the peer has reacted to the server's output meanwhile: the data arrives after
                // this one not-ready result
                w.released = w.releasable;
                cx.waker().wake_by_ref();
            } else if w.close_due() {
                w.eof_visible = true;
                cx.waker().wake_by_ref();
            } else {
                w.reader_waker = Some(cx.waker().clone());
            }
            return Poll::Pending;
        }
        let step = w.read_script[w.read_step % w.read_script.len()].clone();
        w.read_step += 1;
        match step {
            RStep::Pending => {
                w.saw_read_pending = true;
                cx.waker().wake_by_ref();
                Poll::Pending
            },
            RStep::Give(n) => {
                // u16::MAX means "as much as fits"
                let n = if n == u16::MAX { usize::MAX } else { n.max(1) as usize };
                let n = n.min(buf.len()).min(avail);
                if n < buf.len().min(avail) {
                    w.short_reads += 1;
                }
                let pos = w.read_pos;
                buf[..n].copy_from_slice(&w.client[pos..pos + n]);
                w.read_pos += n;
                Poll::Ready(Ok(n))
            },
        }
    }
}

impl MockWriter {
    fn do_write(&self, cx: &mut Context<'_>, bufs: &[&[u8]]) -> Poll<io::Result<usize>> {
        let mut w = self.0.lock().unwrap();
        let total: usize = bufs.iter().map(|b| b.len()).sum();
        if total == 0 {
            return Poll::Ready(Ok(0));
        }
        let call = w.write_calls;
        w.write_calls += 1;
        w.transport_events += 1;
        match w.fault {
            IoFault::WriteErr { call: c, kind } if c as usize == call => {
                let l = w.log.len();
                w.failed_write_at_log_len.get_or_insert(l);
                return Poll::Ready(Err(kind.kind().into()));
            },
            IoFault::WriteZero { call: c } if c as usize == call => {
                let l = w.log.len();
                w.failed_write_at_log_len.get_or_insert(l);
                return Poll::Ready(Ok(0));
            },
            _ => {},
        }
        let step = w.write_script[w.write_step % w.write_script.len()].clone();
        w.write_step += 1;
        match step {
            WStep::Pending => {
                w.saw_write_pending = true;
                w.poll_park = None; // the task now waits for the writer
                cx.waker().wake_by_ref();
                Poll::Pending
            },
            WStep::Accept(n) => {
                if w.log.len() > LOG_CAP {
                    // No generated case asks the server for more than a few MiB of output: a log
                    // beyond the cap means the code under test writes without bound. Reported as
                    // a panic of the case (the lock is released first so that unwinding is clean).
                    drop(w);
                    panic!("mock transport: the server wrote more than {} MiB (unbounded output)", LOG_CAP >> 20);
                }
                let n = if n == u16::MAX { usize::MAX } else { n.max(1) as usize };
                let mut n = n.min(total);
                if n < total {
                    w.short_writes += 1;
                }
                let ret = n;
                for b in bufs {
                    let k = n.min(b.len());
                    w.log.extend_from_slice(&b[..k]);
                    n -= k;
                    if n == 0 {
                        break;
                    }
                }
                w.peer_update();
                Poll::Ready(Ok(ret))
            },
        }
    }
}

/// Upper bound of the mock transport's byte log (see `do_write`).
pub const LOG_CAP: usize = 48 << 20;

impl World {
    /// To be called by executor loops around every poll of the task that owns the reader.
    pub fn begin_poll(&mut self) {
        self.poll_park = None;
    }
    /// Returns true if the poll left the task suspended waiting for input.
    pub fn end_poll(&mut self, pending: bool) -> bool {
        if let (true, Some(read_pos)) = (pending, self.poll_park.take()) {
            let l = self.log.len();
            self.suspensions.push((l, read_pos));
            return true;
        }
        false
    }
}

impl AsyncWrite for MockWriter {
    fn poll_write(self: Pin<&mut Self>, cx: &mut Context<'_>, buf: &[u8]) -> Poll<io::Result<usize>> {
        self.do_write(cx, &[buf])
    }

    fn poll_write_vectored(self: Pin<&mut Self>, cx: &mut Context<'_>, bufs: &[io::IoSlice<'_>]) -> Poll<io::Result<usize>> {
        let vectored = self.0.lock().unwrap().vectored;
        if vectored {
            let v: Vec<&[u8]> = bufs.iter().map(|b| &**b).collect();
            self.do_write(cx, &v)
        } else {
            // like the default implementation: first non-empty buffer only
            let first = bufs.iter().find(|b| !b.is_empty()).map_or(&[][..], |b| &**b);
            self.do_write(cx, &[first])
        }
    }

    fn poll_flush(self: Pin<&mut Self>, cx: &mut Context<'_>) -> Poll<io::Result<()>> {
        let mut w = self.0.lock().unwrap();
        let call = w.flush_calls;
        w.flush_calls += 1;
        if !w.flush_script.is_empty() && w.flush_script[call % w.flush_script.len()] {
            w.flush_pendings += 1;
            w.transport_events += 1;
            w.poll_park = None;
            cx.waker().wake_by_ref();
            return Poll::Pending;
        }
        Poll::Ready(Ok(()))
    }

    fn poll_close(self: Pin<&mut Self>, _cx: &mut Context<'_>) -> Poll<io::Result<()>> {
        Poll::Ready(Ok(()))
    }
}

// ---------------------------------------------------------------------------------------------
// executor

pub struct FlagWaker {
    pub woken: AtomicBool,
    pub wakes: AtomicUsize,
}

impl FlagWaker {
    pub fn new(initially: bool) -> Arc<Self> {
        Arc::new(Self { woken: AtomicBool::new(initially), wakes: AtomicUsize::new(0) })
    }
    pub fn take(&self) -> bool {
        self.woken.swap(false, Ordering::SeqCst)
    }
    pub fn is_woken(&self) -> bool {
        self.woken.load(Ordering::SeqCst)
    }
}

impl Wake for FlagWaker {
    fn wake(self: Arc<Self>) {
        self.wake_by_ref();
    }
    fn wake_by_ref(self: &Arc<Self>) {
        self.woken.store(true, Ordering::SeqCst);
        self.wakes.fetch_add(1, Ordering::SeqCst);
    }
}

pub struct Task<'a> {
    pub fut: Option<Pin<Box<dyn Future<Output = ()> + 'a>>>,
    pub flag: Arc<FlagWaker>,
    pub polls: usize,
}

impl<'a> Task<'a> {
    pub fn new(fut: impl Future<Output = ()> + 'a) -> Self {
        Self { fut: Some(Box::pin(fut)), flag: FlagWaker::new(true), polls: 0 }
    }
    pub fn finished(&self) -> bool {
        self.fut.is_none()
    }
    /// Polls once; returns true if the task finished.
    pub fn poll_once(&mut self) -> bool {
        let Some(f) = self.fut.as_mut() else { return true };
        self.flag.take();
        let waker = Waker::from(self.flag.clone());
        let mut cx = Context::from_waker(&waker);
        self.polls += 1;
        if f.as_mut().poll(&mut cx).is_ready() {
            self.fut = None;
            true
        } else {
            false
        }
    }
}

#[derive(Debug, Clone, PartialEq, Eq)]
pub enum RunEnd {
    /// every task finished
    Finished,
    /// no task is runnable, some are unfinished (nobody will ever wake them)
    Idle,
    /// step budget exhausted
    StepLimit,
}

/// Runs a single task to completion / idleness; `on_step(step)` is called before each poll.
pub fn run_single(task: &mut Task<'_>, max_steps: usize, mut on_step: impl FnMut(usize)) -> (RunEnd, usize) {
    let mut steps = 0;
    loop {
        if task.finished() {
            return (RunEnd::Finished, steps);
        }
        if !task.flag.is_woken() {
            return (RunEnd::Idle, steps);
        }
        if steps >= max_steps {
            return (RunEnd::StepLimit, steps);
        }
        on_step(steps);
        steps += 1;
        task.poll_once();
    }
}

// ---------------------------------------------------------------------------------------------
// handler interpreter

#[derive(Clone, Debug, Serialize, Deserialize, PartialEq, Eq, Hash)]
pub enum Status {
    Complete(u32),
    Overloaded,
    UnknownRole,
}

impl Status {
    pub fn to_exit(&self) -> ExitStatus {
        match self {
            Status::Complete(c) => ExitStatus::Complete(*c),
            Status::Overloaded => ExitStatus::Overloaded,
            Status::UnknownRole => ExitStatus::UnknownRole,
        }
    }
    /// (protocol status, app status) on the wire
    pub fn on_wire(&self) -> (u8, u32) {
        match self {
            Status::Complete(c) => (wire::ST_COMPLETE, *c),
            Status::Overloaded => (wire::ST_OVERLOADED, 0),
            Status::UnknownRole => (wire::ST_UNKNOWN_ROLE, 0),
        }
    }
}

#[derive(Clone, Debug, Serialize, Deserialize, PartialEq, Eq, Hash)]
pub enum HOp {
    /// AsyncRead::read into a buffer of this capacity
    Read(u16),
    /// read until Ok(0) (or an error)
    ReadToEnd { cap: u16 },
    /// start a read but give up (drop the future, as a timeout or `select!` would) if it is
    /// still pending after this many polls
    ReadCancel { cap: u16, polls: u8 },
    /// AsyncBufRead::fill_buf, then consume min(k, len)
    FillConsume(u16),
    /// select the next input stream of the role (no-op if there is none)
    NextStream,
    AwaitWriteable,
    /// one AsyncWrite::write of `len` bytes to stdout (false) / stderr (true); awaits writeable first
    Write { stderr: bool, len: u32 },
    WriteAll { stderr: bool, len: u32 },
    Flush { stderr: bool },
    Return(Status),
    ReturnErr(FaultKind),
}

#[derive(Clone, Debug, Default)]
pub struct Invocation {
    pub role: u16,
    pub flags: u8,
    pub env: BTreeMap<String, Vec<u8>>,
    /// bytes obtained per stream type
    pub reads: BTreeMap<u8, Vec<u8>>,
    /// stream -> saw Ok(0) / empty fill_buf with a non-empty buffer
    pub eof_seen: BTreeMap<u8, bool>,
    /// error kinds returned by input operations, with the stream that was active
    pub read_errors: Vec<(Option<u8>, io::ErrorKind)>,
    pub write_errors: Vec<io::ErrorKind>,
    /// (stream type, bytes the write call reported as accepted)
    pub writes: Vec<(u8, Vec<u8>)>,
    pub returned: Option<Result<Status, io::ErrorKind>>,
    /// executor step during which the handler was invoked
    pub started_at_step: usize,
    /// reads that returned data after an EOF was seen on the same stream
    pub data_after_eof: bool,
    pub writeable_at_start: bool,
    pub became_writeable_before_streams_done: bool,
    pub writeable_ok_but_not_writeable: bool,
    /// log length when the handler returned
    pub log_len_at_return: usize,
}

pub struct HShared {
    pub scripts: Vec<Vec<HOp>>,
    /// stop at the first I/O error and return it (a handler that propagates errors)
    pub propagate: bool,
    pub log: Mutex<Vec<Invocation>>,
    pub step: Arc<AtomicUsize>,
    pub world: Shared,
}

/// Handler output content: depends on (invocation, stream, offset).
pub fn handler_bytes(inv: usize, stderr: bool, offset: usize, len: usize) -> Vec<u8> {
    let all = gen::gen_bytes(offset + len, 0xbeef ^ ((inv as u32) << 8) ^ stderr as u32);
    all[offset..].to_vec()
}

/// Polls the inner future at most `left` times; yields `None` if it is still pending then.
struct PollLimited<F> {
    fut: Pin<Box<F>>,
    left: usize,
}

impl<F: Future> Future for PollLimited<F> {
    type Output = Option<F::Output>;
    fn poll(mut self: Pin<&mut Self>, cx: &mut Context<'_>) -> Poll<Self::Output> {
        if self.left == 0 {
            return Poll::Ready(None);
        }
        self.left -= 1;
        match self.fut.as_mut().poll(cx) {
            Poll::Ready(v) => Poll::Ready(Some(v)),
            Poll::Pending if self.left == 0 => Poll::Ready(None),
            Poll::Pending => Poll::Pending,
        }
    }
}

type Req<'b> = Request<'b, MockReader, MockWriter>;

fn active(req: &Req<'_>) -> Option<u8> {
    req.active_stream().map(u8::from)
}

async fn interpret(req: &mut Req<'_>, sh: Arc<HShared>, idx: usize) -> io::Result<ExitStatus> {
    let ops = sh.scripts.get(idx).cloned().unwrap_or_default();
    let mut written = [0usize; 2];
    macro_rules! log {
        (|$i:ident| $body:expr) => {{
            let mut g = sh.log.lock().unwrap();
            let $i = &mut g[idx];
            $body
        }};
    }
    macro_rules! fail_or_continue {
        ($e:expr, $is_read:expr) => {{
            let e: io::Error = $e;
            let k = e.kind();
            if $is_read {
                let a = active(req);
                log!(|i| i.read_errors.push((a, k)));
            } else {
                log!(|i| i.write_errors.push(k));
            }
            if sh.propagate {
                log!(|i| i.returned = Some(Err(k)));
                let l = sh.world.lock().unwrap().log.len();
                log!(|i| i.log_len_at_return = l);
                return Err(e);
            }
        }};
    }
    let order = wire::role_streams(u16::from(req.role())).to_vec();
    // Like a real handler, keep the output writers for the whole invocation (they are dropped
    // when the handler returns, as Request::close requires).
    let mut writers: [Option<fastcgi_server::async_io::StreamWriter<MockWriter>>; 2] = [None, None];
    // After a cancelled read the Request may still hold the output lock for a reply whose flush
    // was pending; writing through a StreamWriter on the same task would then wait forever (see
    // DESIGN.md section 6, observation 2 - outside the listed properties). The scripted handler
    // therefore does not use its output writers any more once it has cancelled a read.
    let mut cancelled_read = false;
    for op in ops {
        if cancelled_read && matches!(op, HOp::Write { .. } | HOp::WriteAll { .. } | HOp::Flush { .. }) {
            continue;
        }

        match op {
            HOp::Read(cap) => {
                let mut buf = vec![0u8; cap as usize];
                let a = active(req);
                match req.read(&mut buf).await {
                    Ok(n) => {
                        if let Some(s) = a {
                            log!(|i| {
                                if n > 0 && i.eof_seen.get(&s) == Some(&true) {
                                    i.data_after_eof = true;
                                }
                                i.reads.entry(s).or_default().extend_from_slice(&buf[..n]);
                                if n == 0 && cap > 0 {
                                    i.eof_seen.insert(s, true);
                                }
                            });
                        } else if n > 0 {
                            log!(|i| i.reads.entry(0).or_default().extend_from_slice(&buf[..n]));
                        }
                    },
                    Err(e) => fail_or_continue!(e, true),
                }
            },
            HOp::ReadCancel { cap, polls } => {
                let mut buf = vec![0u8; cap as usize];
                let a = active(req);
                let res = {
                    let fut = req.read(&mut buf);
                    PollLimited { fut: Box::pin(fut), left: polls as usize + 1 }.await
                };
                match res {
                    None => cancelled_read = true,
                    Some(Ok(n)) => {
                        if let Some(s) = a {
                            log!(|i| {
                                if n > 0 && i.eof_seen.get(&s) == Some(&true) {
                                    i.data_after_eof = true;
                                }
                                i.reads.entry(s).or_default().extend_from_slice(&buf[..n]);
                                if n == 0 && cap > 0 {
                                    i.eof_seen.insert(s, true);
                                }
                            });
                        } else if n > 0 {
                            log!(|i| i.reads.entry(0).or_default().extend_from_slice(&buf[..n]));
                        }
                    },
                    Some(Err(e)) => fail_or_continue!(e, true),
                }
            },
            HOp::ReadToEnd { cap } => {
                let cap = cap.max(1);
                let mut rounds = 0;
                loop {
                    rounds += 1;
                    if rounds > 1_000_000 {
                        break;
                    }
                    let mut buf = vec![0u8; cap as usize];
                    let a = active(req);
                    match req.read(&mut buf).await {
                        Ok(0) => {
                            if let Some(s) = a {
                                log!(|i| {
                                    i.eof_seen.insert(s, true);
                                });
                            }
                            break;
                        },
                        Ok(n) => {
                            let s = a.unwrap_or(0);
                            log!(|i| {
                                if i.eof_seen.get(&s) == Some(&true) {
                                    i.data_after_eof = true;
                                }
                                i.reads.entry(s).or_default().extend_from_slice(&buf[..n]);
                            });
                        },
                        Err(e) => {
                            fail_or_continue!(e, true);
                            break;
                        },
                    }
                }
            },
            HOp::FillConsume(k) => {
                let a = active(req);
                let got = match req.fill_buf().await {
                    Ok(b) => Ok((b[..b.len().min(k as usize)].to_vec(), b.len())),
                    Err(e) => Err(e),
                };
                match got {
                    Ok((taken, avail)) => {
                        let s = a.unwrap_or(0);
                        if a.is_some() || avail > 0 {
                            log!(|i| {
                                if avail > 0 && i.eof_seen.get(&s) == Some(&true) {
                                    i.data_after_eof = true;
                                }
                                i.reads.entry(s).or_default().extend_from_slice(&taken);
                                if avail == 0 {
                                    i.eof_seen.insert(s, true);
                                }
                            });
                        }
                        req.consume_unpin(taken.len());
                    },
                    Err(e) => fail_or_continue!(e, true),
                }
            },
            HOp::NextStream => {
                if let Some(s) = active(req) {
                    if let Some(next) = order.iter().position(|&x| x == s).and_then(|p| order.get(p + 1)) {
                        req.set_stream(RecordType::try_from(*next).unwrap());
                    }
                }
            },
            HOp::AwaitWriteable => {
                if let Err(e) = req.writeable().await {
                    fail_or_continue!(e, true);
                }
            },
            HOp::Write { stderr, len } | HOp::WriteAll { stderr, len } => {
                if !req.is_writeable() {
                    if let Err(e) = req.writeable().await {
                        fail_or_continue!(e, true);
                        continue;
                    }
                    if !req.is_writeable() {
                        // Seen after an abort error that the handler ignored: writeable() returns
                        // Ok although the request never became writeable (outside the listed
                        // properties; recorded, and the write is skipped instead of panicking).
                        log!(|i| i.writeable_ok_but_not_writeable = true);
                        continue;
                    }
                }
                let ty = if stderr { wire::T_STDERR } else { wire::T_STDOUT };
                let k = stderr as usize;
                let data = handler_bytes(idx, stderr, written[k], len as usize);
                if writers[k].is_none() {
                    writers[k] = Some(req.output_stream(RecordType::try_from(ty).unwrap()));
                }
                let w = writers[k].as_mut().unwrap();
                let all = matches!(op, HOp::WriteAll { .. });
                let mut off = 0usize;
                loop {
                    match w.write(&data[off..]).await {
                        Ok(n) => {
                            log!(|i| i.writes.push((ty, data[off..off + n].to_vec())));
                            off += n;
                            written[k] += n;
                            if !all || off >= data.len() || n == 0 {
                                break;
                            }
                        },
                        Err(e) => {
                            // a handler that carries on after a failed write must not reuse the
                            // writer with a different buffer (documented contract): give it up
                            writers[k] = None;
                            fail_or_continue!(e, false);
                            break;
                        },
                    }
                }
            },
            HOp::Flush { stderr } => {
                if req.is_writeable() {
                    let ty = if stderr { wire::T_STDERR } else { wire::T_STDOUT };
                    let k = stderr as usize;
                    if writers[k].is_none() {
                        writers[k] = Some(req.output_stream(RecordType::try_from(ty).unwrap()));
                    }
                    let r = writers[k].as_mut().unwrap().flush().await;
                    if let Err(e) = r {
                        writers[k] = None;
                        fail_or_continue!(e, false);
                    }
                }
            },
            HOp::Return(st) => {
                let l = sh.world.lock().unwrap().log.len();
                log!(|i| {
                    i.returned = Some(Ok(st.clone()));
                    i.log_len_at_return = l;
                });
                return Ok(st.to_exit());
            },
            HOp::ReturnErr(k) => {
                let l = sh.world.lock().unwrap().log.len();
                log!(|i| {
                    i.returned = Some(Err(k.kind()));
                    i.log_len_at_return = l;
                });
                return Err(k.kind().into());
            },
        }
        // writeable gate observation
        let wr = req.is_writeable();
        let act = active(req);
        log!(|i| {
            if wr && order.len() >= 2 && act == order.first().copied() && !i.writeable_at_start {
                i.became_writeable_before_streams_done = true;
            }
        });
    }
    let l = sh.world.lock().unwrap().log.len();
    log!(|i| {
        i.returned = Some(Ok(Status::Complete(0)));
        i.log_len_at_return = l;
    });
    Ok(ExitStatus::SUCCESS)
}

/// Builds the handler closure handed to `Token::run`.
pub fn make_handler(sh: Arc<HShared>) -> impl for<'a, 'b> FnMut(&'a mut Req<'b>) -> BoxFuture<'a, io::Result<ExitStatus>> {
    fn constrain<F>(f: F) -> F
    where
        F: for<'a, 'b> FnMut(&'a mut Req<'b>) -> BoxFuture<'a, io::Result<ExitStatus>>,
    {
        f
    }
    constrain(move |req| {
        let sh = sh.clone();
        let idx = {
            let mut g = sh.log.lock().unwrap();
            let env = req.env_iter().map(|(k, v)| (k.as_ref().to_string(), v.to_vec())).collect();
            g.push(Invocation {
                role: u16::from(req.role()),
                flags: req.flags().bits(),
                env,
                started_at_step: sh.step.load(Ordering::SeqCst),
                writeable_at_start: req.is_writeable(),
                ..Default::default()
            });
            g.len() - 1
        };
        Box::pin(interpret(req, sh, idx))
    })
}
