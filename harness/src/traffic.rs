//! Compact, shrinkable descriptions of client traffic and their expansion into record lists.

use proptest::prelude::*;
use proptest::strategy::BoxedStrategy;
use serde::{Deserialize, Serialize};

use crate::gen::{self, idx, Blob};
use crate::wire::{self, *};

// ---------------------------------------------------------------------------------------------
// name-value pairs / Params stream

#[derive(Clone, Debug, Serialize, Deserialize, PartialEq, Eq, Hash)]
pub struct PairSpec {
    pub name: Blob,
    pub value: Blob,
    /// force the four-byte form for the name / value length
    pub long_n: bool,
    pub long_v: bool,
}

impl PairSpec {
    pub fn encode(&self, out: &mut Vec<u8>) {
        wire::enc_pair_forms(&self.name.bytes(), &self.value.bytes(), self.long_n, self.long_v, out);
    }
    pub fn body_len(&self) -> usize {
        self.name.len() + self.value.len()
    }
}

#[derive(Clone, Debug, Serialize, Deserialize, PartialEq, Eq, Hash)]
pub enum CutMode {
    /// one record (split only where 65535 forces it)
    One,
    /// a record every k bytes (k = 1..=8; scaled up for long payloads)
    Every(u8),
    /// cuts at these fractions of the payload
    Fracs(Vec<u16>),
    /// cuts aimed at (pair picked by fraction, signed offset from the pair's first byte)
    Aimed(Vec<(u16, i8)>),
}

#[derive(Clone, Debug, Serialize, Deserialize, PartialEq, Eq, Hash)]
pub struct ParamsSpec {
    pub pairs: Vec<PairSpec>,
    pub cut: CutMode,
    /// padding per Params record, applied cyclically (empty = no padding)
    pub pads: Vec<u8>,
}

pub struct ParamsBuilt {
    pub recs: Vec<Rec>,
    pub payload_len: usize,
    /// number of pairs that cross at least one record boundary
    pub crossing_pairs: usize,
    /// a cut falls strictly inside some pair's length prefix
    pub cut_in_prefix: bool,
    /// some pair is spread over >= 3 records
    pub over_three: bool,
}

impl ParamsSpec {
    /// Expands into Params records for request `id`, including the empty terminator.
    pub fn build(&self, id: u16) -> ParamsBuilt {
        let mut payload = Vec::new();
        let mut starts = Vec::new(); // (start, header_len, end)
        for p in &self.pairs {
            let s = payload.len();
            p.encode(&mut payload);
            let hl = payload.len() - s - p.body_len();
            starts.push((s, hl, payload.len()));
        }
        let n = payload.len();
        let mut cuts: Vec<usize> = Vec::new();
        match &self.cut {
            CutMode::One => {},
            CutMode::Every(k) => {
                let k = (*k).clamp(1, 8) as usize;
                let k = if n > 6000 { k * (n / 3000) } else { k };
                let mut c = k;
                while c < n {
                    cuts.push(c);
                    c += k;
                }
            },
            CutMode::Fracs(fs) => {
                for f in fs {
                    cuts.push(idx(*f, n + 1));
                }
            },
            CutMode::Aimed(aims) => {
                for (pf, d) in aims {
                    if starts.is_empty() {
                        continue;
                    }
                    let (s, _, _) = starts[idx(*pf, starts.len())];
                    let c = s as i64 + *d as i64;
                    if c > 0 && (c as usize) < n {
                        cuts.push(c as usize);
                    }
                }
            },
        }
        cuts.retain(|&c| c > 0 && c < n);
        cuts.sort_unstable();
        cuts.dedup();
        // enforce the 65535 limit
        let mut bounds = vec![0usize];
        for c in cuts.into_iter().chain(std::iter::once(n)) {
            let mut last = *bounds.last().unwrap();
            while c - last > 0xffff {
                last += 0xffff;
                bounds.push(last);
            }
            if c > last {
                bounds.push(c);
            }
        }
        let mut recs = Vec::new();
        let pad_at = |i: usize| if self.pads.is_empty() { 0 } else { self.pads[i % self.pads.len()] };
        for (i, w) in bounds.windows(2).enumerate() {
            recs.push(Rec::new(T_PARAMS, id, payload[w[0]..w[1]].to_vec(), pad_at(i)));
        }
        recs.push(Rec::new(T_PARAMS, id, Vec::new(), pad_at(recs.len())));
        let inner: Vec<usize> = if bounds.len() > 2 { bounds[1..bounds.len() - 1].to_vec() } else { Vec::new() };
        let mut crossing = 0;
        let mut cut_in_prefix = false;
        let mut over_three = false;
        for &(s, hl, e) in &starts {
            let inside = inner.iter().filter(|&&c| c > s && c < e).count();
            if inside > 0 {
                crossing += 1;
            }
            if inside >= 2 {
                over_three = true;
            }
            if inner.iter().any(|&c| c > s && c < s + hl) {
                cut_in_prefix = true;
            }
        }
        ParamsBuilt { recs, payload_len: n, crossing_pairs: crossing, cut_in_prefix, over_three }
    }

    pub fn longest_pair(&self) -> usize {
        self.pairs.iter().map(PairSpec::body_len).max().unwrap_or(0)
    }
}

pub fn pair_spec(max_len: u32) -> BoxedStrategy<PairSpec> {
    let value = prop_oneof![
        5 => gen::small_blob(max_len),
        1 => (prop_oneof![Just(0u32), Just(1), Just(127), Just(128)], any::<u32>()).prop_map(|(len, seed)| Blob::Gen { len, seed }),
    ];
    (gen::var_name(), value, prop::bool::weighted(0.15), prop::bool::weighted(0.15))
        .prop_map(|(name, value, long_n, long_v)| PairSpec { name, value, long_n, long_v })
        .boxed()
}

fn clip(b: Blob, max: usize) -> Blob {
    match b {
        Blob::Lit(mut h) => {
            h.0.truncate(max);
            Blob::Lit(h)
        },
        Blob::Gen { len, seed } => Blob::Gen { len: len.min(max as u32), seed },
    }
}

/// A pair whose name and value together occupy at most `max_total` bytes (by construction).
pub fn bounded_pair(max_total: u32) -> BoxedStrategy<PairSpec> {
    pair_spec(max_total)
        .prop_map(move |p| {
            let name = clip(p.name, (max_total as usize).div_ceil(2));
            let value = clip(p.value, max_total as usize - name.len());
            PairSpec { name, value, long_n: p.long_n, long_v: p.long_v }
        })
        .boxed()
}

/// Pair list with duplicates and case variants of earlier names mixed in.
pub fn pair_list(max_pairs: usize, max_len: u32) -> BoxedStrategy<Vec<PairSpec>> {
    (proptest::collection::vec(pair_spec(max_len), 0..=max_pairs), proptest::collection::vec((any::<u16>(), any::<u16>(), any::<u32>(), gen::small_blob(40)), 0..4))
        .prop_map(|(mut pairs, dups)| {
            for (from, at, pat, value) in dups {
                if pairs.is_empty() {
                    break;
                }
                let src = pairs[idx(from, pairs.len())].name.bytes();
                // re-case ASCII letters of an existing name
                let recased: Vec<u8> = src
                    .iter()
                    .enumerate()
                    .map(|(i, &b)| if (pat >> (i % 32)) & 1 == 1 { b.to_ascii_lowercase() } else { b.to_ascii_uppercase() })
                    .collect();
                let pos = idx(at, pairs.len() + 1);
                pairs.insert(pos, PairSpec { name: Blob::lit(&recased), value, long_n: false, long_v: false });
            }
            pairs
        })
        .boxed()
}

pub fn cut_mode() -> BoxedStrategy<CutMode> {
    prop_oneof![
        2 => Just(CutMode::One),
        2 => (1u8..=8).prop_map(CutMode::Every),
        3 => proptest::collection::vec(any::<u16>(), 1..8).prop_map(CutMode::Fracs),
        4 => proptest::collection::vec((any::<u16>(), -2i8..=9), 1..6).prop_map(CutMode::Aimed),
    ]
    .boxed()
}

pub fn pads() -> BoxedStrategy<Vec<u8>> {
    prop_oneof![
        3 => Just(vec![]),
        3 => proptest::collection::vec(0u8..=9, 1..4),
        2 => proptest::collection::vec(any::<u8>(), 1..4),
        1 => Just(vec![255]),
    ]
    .boxed()
}

pub fn params_spec(max_pairs: usize, max_len: u32) -> BoxedStrategy<ParamsSpec> {
    (pair_list(max_pairs, max_len), cut_mode(), pads()).prop_map(|(pairs, cut, pads)| ParamsSpec { pairs, cut, pads }).boxed()
}

// ---------------------------------------------------------------------------------------------
// noise: records that may legitimately appear between the records of a request

#[derive(Clone, Copy, Debug, PartialEq, Eq)]
pub enum Phase {
    Idle,
    Params,
    Streams,
}

#[derive(Clone, Debug, Serialize, Deserialize, PartialEq, Eq, Hash)]
pub enum GvItem {
    Known(u8),
    KnownWithValue(u8, Blob),
    /// a name that is not one of the three variables
    Other(Blob, Blob),
}

#[derive(Clone, Debug, Serialize, Deserialize, PartialEq, Eq, Hash)]
pub enum Noise {
    /// GetValues with request id 0; `trunc` bytes are cut off the end of the body; `long` encodes
    /// every length in the four-byte form (legal, some clients always do)
    GetValues {
        items: Vec<GvItem>,
        trunc: u8,
        pad: u8,
        #[serde(default)]
        long: bool,
    },
    /// record of a type outside 1..=11
    UnknownType { ty: u8, id: u16, len: u16, pad: u8 },
    /// Params/Stdin/Data/Abort record carrying another request's id
    Foreign { ty: u8, id_delta: u16, len: u16, pad: u8 },
    /// BeginRequest for another request id (may be 0)
    ForeignBegin { id_delta: u16, role: u16, flags: u8, pad: u8 },
    /// BeginRequest repeating the current request's id
    DupBegin { role: u16, flags: u8, pad: u8 },
    /// record types only a server sends (EndRequest, Stdout, Stderr, GetValuesResult, UnknownType)
    ClientOutput { ty: u8, id: u16, len: u16, pad: u8 },
    /// Params record for the *current* id after the Params stream ended (stale)
    StaleParams { len: u16, pad: u8 },
}

pub const KNOWN: [&[u8]; 3] = [b"FCGI_MAX_CONNS", b"FCGI_MAX_REQS", b"FCGI_MPXS_CONNS"];

pub fn unknown_type_byte(x: u8) -> u8 {
    // maps 0..=244 onto {0} U {12..=255}
    let x = x % 245;
    if x == 0 { 0 } else { x + 11 }
}

pub fn foreign_id(own: u16, delta: u16) -> u16 {
    // any id different from `own`, including 0
    own.wrapping_add(1 + delta % 0xffff)
}

impl Noise {
    /// Largest name+value of any pair this record asks the server to buffer.
    pub fn longest_pair(&self) -> usize {
        match self {
            Noise::GetValues { items, .. } => items
                .iter()
                .map(|i| match i {
                    GvItem::Known(_) => 0, // covered by the 24-byte minimum buffer
                    GvItem::KnownWithValue(k, v) => KNOWN[*k as usize % 3].len() + v.len(),
                    GvItem::Other(n, v) => n.len() + v.len(),
                })
                .max()
                .unwrap_or(0),
            _ => 0,
        }
    }

    /// Expands into a record; `own` is the current request id, `phase` the protocol phase at
    /// the insertion point (records that would change the meaning of the traffic there - e.g.
    /// start a request while idle - are defused or dropped).
    pub fn build(&self, own: u16, phase: Phase) -> Option<Rec> {
        let idle = phase == Phase::Idle;
        Some(match self {
            Noise::GetValues { items, trunc, pad, long } => {
                let mut body = Vec::new();
                let l = *long;
                for it in items {
                    match it {
                        GvItem::Known(k) => wire::enc_pair_forms(KNOWN[*k as usize % 3], b"", l, l, &mut body),
                        GvItem::KnownWithValue(k, v) => wire::enc_pair_forms(KNOWN[*k as usize % 3], &v.bytes(), l, l, &mut body),
                        GvItem::Other(n, v) => {
                            let mut name = n.bytes();
                            if KNOWN.iter().any(|k| *k == &name[..]) {
                                name.push(b'x');
                            }
                            wire::enc_pair_forms(&name, &v.bytes(), l, l, &mut body);
                        },
                    }
                }
                let keep = body.len().saturating_sub(*trunc as usize);
                body.truncate(keep.min(0xffff));
                Rec::new(T_GETVALUES, 0, body, *pad)
            },
            Noise::UnknownType { ty, id, len, pad } => Rec::new(unknown_type_byte(*ty), *id, gen::gen_bytes(*len as usize, *ty as u32), *pad),
            Noise::Foreign { ty, id_delta, len, pad } => {
                let t = [T_PARAMS, T_STDIN, T_DATA, T_ABORT][*ty as usize % 4];
                Rec::new(t, foreign_id(own, *id_delta), gen::gen_bytes(*len as usize, 7), *pad)
            },
            Noise::ForeignBegin { id_delta, role, flags, pad } => {
                let role = if idle && (1..=3).contains(role) { *role + 3 } else { *role };
                Rec::new(T_BEGIN, foreign_id(own, *id_delta), begin_body(role, *flags), *pad)
            },
            Noise::DupBegin { role, flags, pad } => {
                if idle {
                    return None;
                }
                Rec::new(T_BEGIN, own, begin_body(*role, *flags), *pad)
            },
            Noise::ClientOutput { ty, id, len, pad } => {
                let t = [T_END, T_STDOUT, T_STDERR, T_GETVALUES_RESULT, T_UNKNOWN][*ty as usize % 5];
                Rec::new(t, *id, gen::gen_bytes(*len as usize, 11), *pad)
            },
            Noise::StaleParams { len, pad } => {
                if phase == Phase::Params {
                    return None; // would be part of the Params stream itself
                }
                Rec::new(T_PARAMS, own, gen::gen_bytes(*len as usize, 13), *pad)
            },
        })
    }
}

fn noise_len() -> BoxedStrategy<u16> {
    prop_oneof![8 => 0u16..=24, 4 => 24u16..=300, 2 => Just(65535u16), 1 => 65281u16..=65535, 2 => 300u16..=9000].boxed()
}

pub fn gv_item(max_pair: u32) -> BoxedStrategy<GvItem> {
    prop_oneof![
        5 => (0u8..3).prop_map(GvItem::Known),
        1 => (0u8..3, gen::small_blob(max_pair.saturating_sub(15))).prop_map(|(k, v)| GvItem::KnownWithValue(k, v)),
        3 => ("[a-z_]{0,10}", prop_oneof![3 => Just(Blob::lit(b"")), 1 => gen::small_blob(max_pair.saturating_sub(10))])
            .prop_map(|(n, v)| GvItem::Other(Blob::lit(n.as_bytes()), v)),
        2 => prop_oneof![
                Just(vec![0xffu8, 0xfe]), Just(vec![b'F', b'C', 0xc3]), Just(b"FCGI_MAX_CONN".to_vec()), Just(b"fcgi_max_conns".to_vec()), Just(b"FCGI_MAX_CONNSS".to_vec()),
                // look-alikes a lenient flag parser might accept
                Just(b" FCGI_MAX_CONNS".to_vec()), Just(b"FCGI_MAX_REQS ".to_vec()), Just(b"\tFCGI_MPXS_CONNS".to_vec()), Just(b"FCGI_MAX_CONNS\n".to_vec()),
                Just(b"FCGI_MAX_CONNS|FCGI_MAX_REQS".to_vec()), Just(b"FCGI_MAX_CONNS | FCGI_MPXS_CONNS".to_vec()), Just(b"0x7".to_vec()), Just(b"0x1".to_vec()), Just(b"7".to_vec()), Just(b"0b111".to_vec()),
                Just(b"FCGI_MAX_CONNS,FCGI_MAX_REQS".to_vec()), Just(b"Fcgi_Max_Conns".to_vec()), Just(b"FCGI_MAX_CONNS\0".to_vec()),
            ]
            .prop_map(|n| GvItem::Other(Blob::lit(&n), Blob::lit(b""))),
    ]
    .prop_map(move |it| {
        // keep name+value within the documented bound by construction
        let over = match &it {
            GvItem::Known(_) => false,
            GvItem::KnownWithValue(k, v) => KNOWN[*k as usize % 3].len() + v.len() > max_pair as usize,
            GvItem::Other(n, v) => n.len() + v.len() > max_pair as usize,
        };
        match (over, it) {
            (false, it) => it,
            (true, GvItem::KnownWithValue(k, _)) => GvItem::Known(k),
            (true, GvItem::Other(n, _)) => {
                let n = clip(n, max_pair as usize);
                GvItem::Other(n, Blob::lit(b""))
            },
            (true, it) => it,
        }
    })
    .boxed()
}

/// Deltas that yield neighbouring ids (own+-1, own+-256) as well as arbitrary ones.
pub fn id_delta() -> BoxedStrategy<u16> {
    prop_oneof![3 => Just(0u16), 2 => Just(0xfffeu16), 1 => Just(0x00ffu16), 1 => Just(0xfeffu16), 3 => any::<u16>()].boxed()
}

/// `max_pair`: largest name+value the configured buffer is documented to handle.
pub fn noise(max_pair: u32) -> BoxedStrategy<Noise> {
    let pad = prop_oneof![3 => Just(0u8), 2 => 0u8..=9, 1 => any::<u8>(), 1 => Just(255u8)];
    prop_oneof![
        5 => (proptest::collection::vec(gv_item(max_pair), 0..6), prop_oneof![4 => Just(0u8), 1 => 1u8..6], pad.clone())
            .prop_map(|(items, trunc, pad)| Noise::GetValues { items, trunc, long: pad % 5 == 1, pad }),
        4 => (any::<u8>(), prop_oneof![Just(0u16), Just(1), any::<u16>()], noise_len(), pad.clone())
            .prop_map(|(ty, id, len, pad)| Noise::UnknownType { ty, id, len, pad }),
        3 => (0u8..4, id_delta(), noise_len(), pad.clone()).prop_map(|(ty, id_delta, len, pad)| Noise::Foreign { ty, id_delta, len, pad }),
        2 => (id_delta(), prop_oneof![3 => 1u16..=3, 1 => prop_oneof![Just(0u16), Just(4), Just(255), Just(256), any::<u16>()]], any::<u8>(), pad.clone())
            .prop_map(|(id_delta, role, flags, pad)| Noise::ForeignBegin { id_delta, role, flags, pad }),
        1 => (1u16..=3, any::<u8>(), pad.clone()).prop_map(|(role, flags, pad)| Noise::DupBegin { role, flags, pad }),
        1 => (0u8..5, any::<u16>(), noise_len(), pad.clone()).prop_map(|(ty, id, len, pad)| Noise::ClientOutput { ty, id, len, pad }),
        1 => (noise_len(), pad).prop_map(|(len, pad)| Noise::StaleParams { len, pad }),
    ]
    .boxed()
}

/// Inserts noise records into `recs` at gaps given as fractions; `phase_of(gap)` tells the
/// protocol phase at gap `g` (= before record `g`).
pub fn splice_noise(recs: Vec<Rec>, noise: &[(u16, Noise)], own: u16, phase_of: impl Fn(usize) -> Phase) -> Vec<Rec> {
    let max_gap = recs.len();
    splice_noise_bounded(recs, noise, own, max_gap, phase_of)
}

/// As `splice_noise`, but only gaps `0..=max_gap` are used.
pub fn splice_noise_bounded(recs: Vec<Rec>, noise: &[(u16, Noise)], own: u16, max_gap: usize, phase_of: impl Fn(usize) -> Phase) -> Vec<Rec> {
    let gaps = max_gap.min(recs.len()) + 1;
    let mut placed: Vec<(usize, usize, Rec)> = Vec::new();
    for (k, (slot, n)) in noise.iter().enumerate() {
        let g = idx(*slot, gaps);
        if let Some(r) = n.build(own, phase_of(g)) {
            placed.push((g, k, r));
        }
    }
    placed.sort_by_key(|(g, k, _)| (*g, *k));
    let mut out = Vec::with_capacity(recs.len() + placed.len());
    let mut it = placed.into_iter().peekable();
    for (i, r) in recs.into_iter().enumerate() {
        while it.peek().is_some_and(|(g, _, _)| *g == i) {
            out.push(it.next().unwrap().2);
        }
        out.push(r);
    }
    for (_, _, r) in it {
        out.push(r);
    }
    out
}

// ---------------------------------------------------------------------------------------------
// request preamble

#[derive(Clone, Debug, Serialize, Deserialize, PartialEq, Eq, Hash)]
pub struct PreambleSpec {
    pub id: u16,
    pub role: u16,
    pub flags: u8,
    pub begin_pad: u8,
    pub params: ParamsSpec,
}

impl PreambleSpec {
    pub fn build(&self) -> (Vec<Rec>, ParamsBuilt) {
        let mut recs = vec![Rec::new(T_BEGIN, self.id, begin_body(self.role, self.flags), self.begin_pad)];
        let pb = self.params.build(self.id);
        recs.extend(pb.recs.iter().cloned());
        (recs, pb)
    }
}

pub fn req_id() -> BoxedStrategy<u16> {
    prop_oneof![2 => Just(1u16), 1 => Just(0xffffu16), 1 => Just(0x0100u16), 4 => 1u16..=0xffff].boxed()
}

pub fn flags() -> BoxedStrategy<u8> {
    prop_oneof![2 => Just(0u8), 3 => Just(1u8), 2 => any::<u8>()].boxed()
}

pub fn preamble_spec(max_pairs: usize, max_len: u32) -> BoxedStrategy<PreambleSpec> {
    (req_id(), 1u16..=3, flags(), prop_oneof![3 => Just(0u8), 1 => any::<u8>()], params_spec(max_pairs, max_len))
        .prop_map(|(id, role, flags, begin_pad, params)| PreambleSpec { id, role, flags, begin_pad, params })
        .boxed()
}

// ---------------------------------------------------------------------------------------------
// input streams

#[derive(Clone, Debug, Serialize, Deserialize, PartialEq, Eq, Hash)]
pub struct StreamSpec {
    pub ty: u8,
    pub seed: u32,
    /// data record lengths (>= 1 each)
    pub lens: Vec<u16>,
    pub pads: Vec<u8>,
    /// whether the empty terminating record is sent
    pub terminated: bool,
    pub end_pad: u8,
}

/// Pseudo-random content of a stream: position-dependent, so any reordering, duplication or
/// corruption changes the byte string.
pub fn stream_content(ty: u8, seed: u32, len: usize) -> Vec<u8> {
    gen::gen_bytes(len, seed ^ ((ty as u32) << 24) ^ 0x5151)
}

/// Overwrites every other 8-byte block of a record payload with a plausible record header for
/// this very request (see `StreamSpec::build`).
pub fn protocol_lookalike(payload: &mut [u8], ty: u8, id: u16, sel: u32) {
    let mut k = 0usize;
    while (k + 1) * 8 <= payload.len() {
        if k % 2 == 0 {
            let t = match (sel as usize + k / 2) % 4 { 0 | 1 => ty, 2 => T_ABORT, _ => if ty == T_STDIN { T_DATA } else { T_BEGIN } };
            let block = [1u8, t, (id >> 8) as u8, id as u8, 0, 0, (sel >> 5) as u8 % 3, 0];
            payload[k * 8..k * 8 + 8].copy_from_slice(&block);
        }
        k += 1;
    }
}

impl StreamSpec {
    pub fn total(&self) -> usize {
        self.lens.iter().map(|&l| l.max(1) as usize).sum()
    }
    pub fn build(&self, id: u16) -> Vec<Rec> {
        let mut content = stream_content(self.ty, self.seed, self.total());
        // One stream in eight carries payload that looks like protocol: every other 8-byte block
        // (counted from the start of each record, where a stop on a caller-buffer boundary is
        // likely to fall) is a header for this very request - the stream's own end marker, an
        // AbortRequest, the end marker of the other input stream, a BeginRequest. A parser that
        // ever interprets payload bytes as records is thereby fed plausible ones.
        if self.seed % 8 == 3 {
            let mut pos = 0usize;
            for &l in &self.lens {
                let l = l.max(1) as usize;
                protocol_lookalike(&mut content[pos..pos + l], self.ty, id, self.seed / 8);
                pos += l;
            }
        }
        let mut pos = 0;
        let mut out = Vec::new();
        for (i, &l) in self.lens.iter().enumerate() {
            let l = l.max(1) as usize;
            let pad = if self.pads.is_empty() { 0 } else { self.pads[i % self.pads.len()] };
            out.push(Rec::new(self.ty, id, content[pos..pos + l].to_vec(), pad));
            pos += l;
        }
        if self.terminated {
            out.push(Rec::new(self.ty, id, Vec::new(), self.end_pad));
        }
        out
    }
}

pub fn stream_len() -> BoxedStrategy<u16> {
    prop_oneof![3 => 1u16..=9, 3 => 1u16..=64, 2 => 64u16..=700, 1 => prop_oneof![Just(65535u16), Just(65534), Just(8192), Just(8184)], 1 => 700u16..=20000].boxed()
}

pub fn stream_spec(ty: u8, terminated: BoxedStrategy<bool>) -> BoxedStrategy<StreamSpec> {
    (
        any::<u32>(),
        prop_oneof![1 => proptest::collection::vec(stream_len(), 0..2), 4 => proptest::collection::vec(stream_len(), 2..7)],
        pads(),
        terminated,
        prop_oneof![3 => Just(0u8), 1 => any::<u8>()],
        // "jumbo" variant: a record at the 16-bit limit whose padding pushes content+padding past
        // 65535 (what `set_lengths(65535)` itself produces), placed among ordinary records
        prop::option::weighted(0.08, (prop_oneof![3 => Just(65535u16), 1 => 65281u16..=65535], prop_oneof![2 => Just(1u8), 1 => Just(7u8), 1 => Just(255u8), 1 => 1u8..=255], any::<u16>())),
    )
        .prop_map(move |(seed, mut lens, mut pads, terminated, end_pad, jumbo)| {
            if let Some((len, pad, at)) = jumbo {
                let k = idx(at, lens.len() + 1);
                lens.insert(k, len);
                if pads.is_empty() {
                    pads = vec![0; lens.len()];
                }
                while pads.len() < lens.len() {
                    let l = pads.len();
                    pads.push(pads[l % pads.len().max(1)]);
                }
                pads[k] = pad;
            }
            StreamSpec { ty, seed, lens, pads, terminated, end_pad }
        })
        .boxed()
}

/// The records following a preamble: the role's input streams in order plus noise.
#[derive(Clone, Debug, Serialize, Deserialize, PartialEq, Eq, Hash)]
pub struct BodySpec {
    pub streams: Vec<StreamSpec>,
    pub noise: Vec<(u16, Noise)>,
}

impl BodySpec {
    pub fn build(&self, id: u16) -> Vec<Rec> {
        let mut recs = Vec::new();
        for s in &self.streams {
            recs.extend(s.build(id));
        }
        splice_noise(recs, &self.noise, id, |_| Phase::Streams)
    }
}

/// Well-formed body for `role`: each input stream once, in order. `all_terminated`: every stream
/// gets its terminator (otherwise a stream may end by the next one starting / by nothing).
pub fn body_spec(role: u16, max_noise: usize, max_pair: u32, all_terminated: bool) -> BoxedStrategy<BodySpec> {
    let term = || -> BoxedStrategy<bool> { if all_terminated { Just(true).boxed() } else { prop::bool::weighted(0.8).boxed() } };
    let streams: BoxedStrategy<Vec<StreamSpec>> = match role {
        ROLE_RESPONDER => stream_spec(T_STDIN, term()).prop_map(|s| vec![s]).boxed(),
        ROLE_FILTER => (stream_spec(T_STDIN, term()), stream_spec(T_DATA, term())).prop_map(|(a, b)| vec![a, b]).boxed(),
        _ => Just(vec![]).boxed(),
    };
    // "reply storm": once in a while several hundred body-less records of unknown types in a row at
    // one position, so that kilobytes of replies are generated (and, with callers that drain the
    // output buffer partially or not at all, pile up) within one history
    let storm: BoxedStrategy<Option<(u16, u16, u8)>> = if max_noise > 0 { prop_oneof![24 => Just(None), 1 => (any::<u16>(), 260u16..=1400, any::<u8>()).prop_map(Some)].boxed() } else { Just(None).boxed() };
    (streams, proptest::collection::vec((any::<u16>(), noise(max_pair)), 0..=max_noise), storm)
        .prop_map(|(streams, mut noise, storm)| {
            if let Some((at, count, ty)) = storm {
                for i in 0..count {
                    noise.push((at, Noise::UnknownType { ty: ty.wrapping_add((i % 3) as u8), id: if i % 5 == 0 { 1 } else { 0 }, len: 0, pad: 0 }));
                }
            }
            BodySpec { streams, noise }
        })
        .boxed()
}
