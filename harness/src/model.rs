//! Record-level reference models (no buffers, no resumption): what a list of client records
//! means according to the FastCGI specification and the crate's documentation.

use std::collections::BTreeMap;

use crate::wire::*;

/// An expected server reply.
#[derive(Clone, Debug)]
pub struct Exp {
    /// Index (in the record list) of the client record that elicits it.
    pub cause: usize,
    pub kind: ExpKind,
}

#[derive(Clone, Debug)]
pub enum ExpKind {
    Exact(Reply),
    /// Any one of these is acceptable (the property statement leaves the choice open).
    OneOf(Vec<Reply>),
    /// GetValues with an empty body: no reply or an empty result are both fine.
    OptionalEmptyValues,
}

pub fn lossy_upper(name: &[u8]) -> String {
    String::from_utf8_lossy(name).to_ascii_uppercase()
}

#[derive(Clone, Debug, PartialEq, Eq)]
pub struct ReqModel {
    pub id: u16,
    pub role: u16,
    pub flags: u8,
    pub env: BTreeMap<String, Vec<u8>>,
}

#[derive(Clone, Debug, PartialEq, Eq)]
pub enum FatalKind {
    UnknownVersion,
    InvalidRequestLen(u16),
    NullRequest,
}

#[derive(Clone, Debug)]
pub enum PreResult {
    /// Preamble complete after `recs_used` records.
    Done { req: ReqModel, recs_used: usize },
    Incomplete,
    Fatal { at_rec: usize, kind: FatalKind },
}

#[derive(Clone, Debug)]
pub struct PreModel {
    pub replies: Vec<Exp>,
    pub result: PreResult,
    /// Number of Params-phase aborts seen before the final request.
    pub aborted: Vec<u16>,
}

pub const KNOWN_VARS: [&[u8]; 3] = [b"FCGI_MAX_CONNS", b"FCGI_MAX_REQS", b"FCGI_MPXS_CONNS"];

pub fn values_reply(body: &[u8], max_conns: usize) -> ExpKind {
    if body.is_empty() {
        return ExpKind::OptionalEmptyValues;
    }
    let (pairs, _) = dec_pairs_owned(body);
    let mut out: Vec<(Vec<u8>, Vec<u8>)> = Vec::new();
    for k in KNOWN_VARS {
        if pairs.iter().any(|(n, _)| n == k) {
            let v = if k == b"FCGI_MPXS_CONNS" { b"0".to_vec() } else { max_conns.to_string().into_bytes() };
            out.push((k.to_vec(), v));
        }
    }
    out.sort();
    ExpKind::Exact(Reply::Values { pairs: out })
}

/// Reply owed for a record irrespective of the protocol phase (management / unknown type).
fn phase_independent(i: usize, r: &Rec, max_conns: usize) -> Option<Exp> {
    if !(1..=11).contains(&r.ty) {
        return Some(Exp { cause: i, kind: ExpKind::Exact(Reply::Unknown { id: r.id, ty: r.ty }) });
    }
    if r.ty == T_GETVALUES && r.id == 0 {
        return Some(Exp { cause: i, kind: values_reply(&r.payload, max_conns) });
    }
    None
}

fn role_of(body: &[u8]) -> u16 {
    ((body[0] as u16) << 8) | body[1] as u16
}

/// Interprets `recs` as seen by a server waiting for a request preamble.
pub fn preamble_model(recs: &[Rec], max_conns: usize) -> PreModel {
    let mut replies = Vec::new();
    let mut aborted = Vec::new();
    // None = idle; Some = request whose Params stream is being received
    let mut cur: Option<(u16, u16, u8, Vec<u8>)> = None;
    for (i, r) in recs.iter().enumerate() {
        if let Some(e) = phase_independent(i, r, max_conns) {
            replies.push(e);
            continue;
        }
        match &mut cur {
            None => {
                if r.ty != T_BEGIN {
                    continue; // stale or stray records are ignored while idle
                }
                if r.payload.len() != 8 {
                    return PreModel { replies, aborted, result: PreResult::Fatal { at_rec: i, kind: FatalKind::InvalidRequestLen(r.payload.len() as u16) } };
                }
                let role = role_of(&r.payload);
                if !(1..=3).contains(&role) {
                    replies.push(Exp { cause: i, kind: ExpKind::Exact(Reply::End { id: r.id, proto: ST_UNKNOWN_ROLE, app: 0 }) });
                    continue;
                }
                if r.id == 0 {
                    return PreModel { replies, aborted, result: PreResult::Fatal { at_rec: i, kind: FatalKind::NullRequest } };
                }
                cur = Some((r.id, role, r.payload[2], Vec::new()));
            },
            Some((id, role, flags, params)) => match r.ty {
                T_PARAMS if r.id == *id => {
                    if r.payload.is_empty() {
                        let (pairs, _) = dec_pairs_owned(params);
                        let mut env = BTreeMap::new();
                        for (n, v) in pairs {
                            env.insert(lossy_upper(&n), v);
                        }
                        let req = ReqModel { id: *id, role: *role, flags: *flags, env };
                        return PreModel { replies, aborted, result: PreResult::Done { req, recs_used: i + 1 } };
                    }
                    params.extend_from_slice(&r.payload);
                },
                T_ABORT if r.id == *id => {
                    replies.push(Exp { cause: i, kind: ExpKind::Exact(Reply::End { id: *id, proto: ST_COMPLETE, app: 0 }) });
                    aborted.push(*id);
                    cur = None;
                },
                T_BEGIN if r.id != *id => {
                    let cant = Reply::End { id: r.id, proto: ST_CANT_MPX, app: 0 };
                    let unknown_role = r.payload.len() >= 2 && !(1..=3).contains(&role_of(&r.payload));
                    if unknown_role {
                        replies.push(Exp { cause: i, kind: ExpKind::OneOf(vec![cant, Reply::End { id: r.id, proto: ST_UNKNOWN_ROLE, app: 0 }]) });
                    } else {
                        replies.push(Exp { cause: i, kind: ExpKind::Exact(cant) });
                    }
                },
                _ => {},
            },
        }
    }
    PreModel { replies, aborted, result: PreResult::Incomplete }
}

#[derive(Clone, Debug)]
pub struct StreamModel {
    /// Input streams of the role, in order.
    pub order: Vec<u8>,
    /// Content per stream: payloads before the stream's end event.
    pub content: BTreeMap<u8, Vec<u8>>,
    /// Index of the record that ends each stream (empty terminator or first later-stream record).
    pub end_rec: BTreeMap<u8, usize>,
    /// Replies owed for records before the abort (if any), in order.
    pub replies: Vec<Exp>,
    /// Index of the AbortRequest record for this request, if any.
    pub abort_at: Option<usize>,
    /// For every stream: (record index, length) of each data record contributing to it.
    pub parts: BTreeMap<u8, Vec<(usize, usize)>>,
}

/// Interprets `recs` as seen after the preamble of request `id` with role `role`.
pub fn stream_model(id: u16, role: u16, recs: &[Rec], max_conns: usize) -> StreamModel {
    let order: Vec<u8> = role_streams(role).to_vec();
    let mut m = StreamModel {
        order: order.clone(),
        content: order.iter().map(|&s| (s, Vec::new())).collect(),
        end_rec: BTreeMap::new(),
        replies: Vec::new(),
        abort_at: None,
        parts: order.iter().map(|&s| (s, Vec::new())).collect(),
    };
    for (i, r) in recs.iter().enumerate() {
        if let Some(e) = phase_independent(i, r, max_conns) {
            m.replies.push(e);
            continue;
        }
        match r.ty {
            T_ABORT if r.id == id => {
                m.abort_at = Some(i);
                break;
            },
            T_BEGIN if r.id != id => {
                let cant = Reply::End { id: r.id, proto: ST_CANT_MPX, app: 0 };
                let unknown_role = r.payload.len() >= 2 && !(1..=3).contains(&role_of(&r.payload));
                if unknown_role {
                    m.replies.push(Exp { cause: i, kind: ExpKind::OneOf(vec![cant, Reply::End { id: r.id, proto: ST_UNKNOWN_ROLE, app: 0 }]) });
                } else {
                    m.replies.push(Exp { cause: i, kind: ExpKind::Exact(cant) });
                }
            },
            t if r.id == id && order.contains(&t) => {
                let pos = order.iter().position(|&s| s == t).unwrap();
                // this record ends every earlier stream that is still open
                for &earlier in &order[..pos] {
                    m.end_rec.entry(earlier).or_insert(i);
                }
                if m.end_rec.contains_key(&t) {
                    continue; // after the stream's end: never delivered
                }
                if r.payload.is_empty() {
                    m.end_rec.insert(t, i);
                } else {
                    m.content.get_mut(&t).unwrap().extend_from_slice(&r.payload);
                    m.parts.get_mut(&t).unwrap().push((i, r.payload.len()));
                }
            },
            _ => {},
        }
    }
    m
}

fn kind_matches(k: &ExpKind, g: &Reply) -> bool {
    match k {
        ExpKind::Exact(r) => r == g,
        ExpKind::OneOf(rs) => rs.contains(g),
        ExpKind::OptionalEmptyValues => *g == Reply::Values { pairs: vec![] },
    }
}

/// `out[e]` = "the first `e` expected entries can account for exactly all of `got`"
/// (optional entries may or may not have produced a reply).
pub fn match_table(expected: &[Exp], got: &[Reply]) -> Vec<bool> {
    // reach[e][g]: first e expectations explain first g replies
    let (ne, ng) = (expected.len(), got.len());
    let mut reach = vec![vec![false; ng + 1]; ne + 1];
    reach[0][0] = true;
    for e in 0..ne {
        for g in 0..=ng {
            if !reach[e][g] {
                continue;
            }
            if matches!(expected[e].kind, ExpKind::OptionalEmptyValues) {
                reach[e + 1][g] = true;
            }
            if g < ng && kind_matches(&expected[e].kind, &got[g]) {
                reach[e + 1][g + 1] = true;
            }
        }
    }
    (0..=ne).map(|e| reach[e][ng]).collect()
}

fn greedy_message(expected: &[Exp], got: &[Reply]) -> String {
    let mut gi = 0;
    for e in expected {
        let hit = got.get(gi).is_some_and(|g| kind_matches(&e.kind, g));
        match (&e.kind, hit) {
            (_, true) => gi += 1,
            (ExpKind::OptionalEmptyValues, false) => {},
            (k, false) => {
                return format!("reply #{gi}: expected {k:?} (owed for client record #{}), got {:?}", e.cause, got.get(gi));
            },
        }
    }
    if gi < got.len() {
        format!("{} unexpected extra reply/replies, first: {:?}", got.len() - gi, got[gi])
    } else {
        "replies do not match the expected list".to_string()
    }
}

/// Matches the replies actually emitted against the expected list (order-sensitive, exact).
pub fn match_replies(expected: &[Exp], got: &[Reply]) -> Result<(), String> {
    if match_table(expected, got)[expected.len()] {
        Ok(())
    } else {
        Err(greedy_message(expected, got))
    }
}

/// `got` must be explained by some prefix of `expected`; returns the largest such prefix length.
pub fn match_replies_prefix(expected: &[Exp], got: &[Reply]) -> Result<usize, String> {
    let t = match_table(expected, got);
    match t.iter().rposition(|&b| b) {
        Some(e) => Ok(e),
        None => Err(greedy_message(expected, got)),
    }
}

/// The replies `got` must be, in order and with nothing else, a prefix of `expected` that covers
/// at least every reply caused by one of the first `consumed_records` client records (records
/// the parser has demonstrably taken in); replies for later records may or may not be there yet.
pub fn match_replies_upto(expected: &[Exp], got: &[Reply], consumed_records: usize) -> Result<(), String> {
    let covered = match_replies_prefix(expected, got)?;
    let must = expected.iter().take_while(|e| e.cause < consumed_records).count();
    if covered >= must || mandatory(&expected[..covered]) >= mandatory(&expected[..must]) {
        Ok(())
    } else {
        Err(format!("only {covered} of the {must} replies owed for the {consumed_records} records the parser consumed were produced"))
    }
}

/// Number of expected replies that must (not may) appear.
pub fn mandatory(expected: &[Exp]) -> usize {
    expected.iter().filter(|e| !matches!(e.kind, ExpKind::OptionalEmptyValues)).count()
}
