#!/usr/bin/env python3
"""Regenerates /verif/MANIFEST.json from the table below (kept in one place so it stays valid)."""
import json, os, subprocess

ROOT = os.path.dirname(os.path.dirname(os.path.abspath(__file__)))
ids = [json.loads(l)["id"] for l in open(os.path.join(ROOT, "properties.jsonl"))]

# id -> (category, technique, level text, level note, design ref)
CLAIMED = {
 "C15": ("exploration",
         "exhaustive enumeration against an independent codec (generated-input search with the finite domain fully covered)",
         "Both tiers enumerate the complete domain: all 2^31 values (write/read round-trip, byte-exact against an independently written encoder, exact consumption), all 2^32 u32 inputs of TryFrom, all 2^31 four-byte encodings incl. non-canonical ones, all one-byte inputs and every truncation. The property is finite, so it is decided for this build rather than sampled.",
         "Trusts the harness's own 20-line reference encoder/decoder and std's Read/Write for slices.",
         "DESIGN.md section 3, C15"),
}

REASON_PENDING = "check under construction in this session (see DESIGN.md section 3); will be claimed once built"

def hook_commits():
    try:
        out = subprocess.run(["git", "-C", "/repo", "log", "--format=%H %s"], capture_output=True, text=True).stdout
        return [l.split()[0] for l in out.splitlines() if "verif hook" in l.lower() or l.split(" ", 1)[1].startswith("verif:")]
    except Exception:
        return []

checks = []
for i in ids:
    if i not in CLAIMED:
        continue
    cat, tech, text, note, ref = CLAIMED[i]
    checks.append({
        "property_id": i,
        "quick_cmd": f"./check {i} quick",
        "thorough_cmd": f"./check {i} thorough",
        "evidence_file": f"/verif/evidence/{i}.json",
        "replay_cmd_template": f"./check {i} --replay {{path}}",
        "engine": "verif-check",
        "level_claimed": {"category": cat, "text": text, "design_ref": ref},
        "level_note": note,
        "technique": tech,
    })

manifest = {
    "version": 1,
    "setup_cmd": "./setup.sh",
    "hooks": {
        "guard": "--cfg fastcgi_server_verif",
        "enable": "rustflags = [\"--cfg\", \"fastcgi_server_verif\"] in /verif/harness/.cargo/config.toml (and /verif/fuzz/.cargo/config.toml); every ./check invocation rebuilds /repo with it",
        "baseline_off_cmd": "cd /repo && cargo test --workspace --no-fail-fast --offline",
        "source_commits": hook_commits(),
        "add_only": True,
    },
    "engines": [
        {"name": "verif-check", "path": "harness/", "serves_properties": ids,
         "kind_free_text": "Rust property-based testing engine: sharded proptest runners (fixed seeds, shrinking, JSON replay files), exhaustive enumerators, deterministic async executor with scripted transports, independent wire codec and reference models"},
        {"name": "fuzz", "path": "fuzz/", "serves_properties": ["C01", "C02", "C03", "C04", "C16"],
         "kind_free_text": "cargo-fuzz / libFuzzer targets with the semantic oracle inside the target (thorough tier)"},
    ],
    "checks": checks,
    "not_applicable": [{"property_id": i, "reason": REASON_PENDING} for i in ids if i not in CLAIMED],
    "notes": "All checks: ./check <ID> quick|thorough; exit 0 held / 1 VIOLATION line / 2 infrastructure. VERIF_SEED and VERIF_TIER are honoured. See DESIGN.md.",
}
json.dump(manifest, open(os.path.join(ROOT, "MANIFEST.json"), "w"), indent=1)
print("claimed:", [c["property_id"] for c in checks])
