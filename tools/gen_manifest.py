#!/usr/bin/env python3
"""Regenerates /verif/MANIFEST.json from the table below (kept in one place so it stays valid)."""
import json, os, subprocess

ROOT = os.path.dirname(os.path.dirname(os.path.abspath(__file__)))
ids = [json.loads(l)["id"] for l in open(os.path.join(ROOT, "properties.jsonl"))]

# id -> (category, technique, level text, level note, design ref)
PBT = "property-based testing (proptest, fixed seeds, shrinking to a JSON replay file)"
CLAIMED = {
 "C01": ("exploration", PBT + " against a record-level reference model; thorough tier adds a coverage-guided libFuzzer campaign",
         "Generated preambles x Params segmentations (cuts aimed into length prefixes, pairs over >=3 records) x padding x interleaved records x 2 buffer sizes x 3 chunkings per case; every run must equal the record-level model (id, role, flags, environment by three spellings, leftover bytes, replies). Search, not proof: holds on everything explored.",
         "Trusts the independent wire encoder and preamble model in harness/src/{wire,model}.rs and std's from_utf8_lossy/to_ascii_uppercase as the meaning of 'lossily decoded, upper-cased'.",
         "DESIGN.md section 3, C01"),
 "C02": ("exploration", PBT + " with an invariant-checking stateful driver (caller-action histories)",
         "Generated stream traffic x caller schedules (feed into dest/internal buffer, parse(0), consume, compress, consume_output, advance); prefix/count/end-of-stream invariants after every action, completeness and exact replies at quiescence; payloads are pseudo-random per position.",
         "Trusts the stream-content model; callers respect the documented preconditions only; debug assertions of the crate are compiled in.",
         "DESIGN.md section 3, C02"),
 "C03": ("exploration", PBT + ": metamorphic relation (chunking / policy invariance, stickiness) on mutated traffic; thorough tier adds libFuzzer targets with the same oracle inside",
         "Random bytes, random records and structurally mutated valid traffic under 4 chunkings x 2 reading policies must give identical outcomes; every call under catch_unwind, CPU-time watchdog for non-returning calls, conversions probed on clones, repeated calls after done/fatal.",
         "No model of malformed traffic is needed; assumes documented call preconditions; a non-returning call is reported after 30 s of CPU time in a single case.",
         "DESIGN.md section 3, C03"),
 "C04": ("exploration", PBT + " against the reply model E1 (semantic comparison of the decoded wire)",
         "Reply-eliciting records at every position class (idle, abandoned preambles, between Params records, stream phase), GetValues body grammar, all unknown types, 1-byte reads, partial output consumption; exactly the expected replies in order, nothing else.",
         "Unknown-type echo carries the record's own id (crate's documented behaviour); tolerances for empty GetValues bodies and unknown-role foreign BeginRequest are listed in DESIGN.md.",
         "DESIGN.md section 3, C04"),
 "C05": ("exploration", PBT + " over conversion chains (k requests, one shared buffer) with byte-exact leftover probes on clones",
         "At every hand-off a clone is converted and its leftover compared with the suffix of the bytes fed; cut must be a record boundary; replies accounted per phase; environments and stream contents equal per-request models.",
         "Readers that abandon a request do what Request::close does and, like a closed-loop client, get no bytes of the next request before that; readers stopping at the held end header get unrestricted look-ahead.",
         "DESIGN.md section 3, C05"),
 "C06": ("exploration", PBT + " plus exhaustive enumeration of buffer sizes 0..=8192",
         "Sizing (>= configured, >= 24, multiple of 8) decided for 0..=8192 and sampled to 1 MiB; sufficiency at exactly buffer_size-13-delta under aimed cuts and buffer-filling reads, for fresh parsers and for parsers obtained through the conversion chain with up to a full buffer of look-ahead; converse (an unfinished parser always offers space, StuckOnInput only beyond the bound, also for GetValues pairs of about buffer size between Params records).",
         "Bound taken from the Config::buffer_size documentation; the region between documented and tight bound is informational only.",
         "DESIGN.md section 3, C06"),
 "C07": ("exploration", PBT + " on a deterministic async test bed (scripted transport, closed-loop peer, executor polling only woken tasks) against the connection model",
         "1..4 requests per connection x handler scripts x reader/writer readiness scripts; handler log and decoded byte log must match the connection model (one invocation per complete preamble, handler data, stream ends, one EndRequest with the right status, reuse iff KeepConn and no I/O error).",
         "Single-request-at-a-time client; where management replies sit relative to a request's records is not constrained; replies for records still buffered when the connection ends are owed only under C08.",
         "DESIGN.md sections 2.1 and 3, C07"),
 "C08": ("exploration", PBT + " with a closed-loop peer: invariant at every suspension point + decided deadlock state",
         "The peer withholds everything after each management query until the reply is on the log; at every park of the reader the replies owed for all complete records handed out must be on the log; 'idle, unfinished, peer waiting' is a decided deadlock. Found two genuine defects (fixed in /repo, see known_findings.json).",
         "Liveness checked as safety under a fair peer and an executor that polls exactly the woken tasks.",
         "DESIGN.md sections 3 and 6, C08"),
 "C09": ("exploration", PBT + " with a direct-poll harness on async_io::Request (operation sequences, readiness scripts)",
         "poll_read (buffers 0..196608 bytes) / poll_fill_buf+consume / set_stream / writeable (also cancelled) / output_stream sequences; delivered bytes equal the active stream's content, EOF only at the true end and persistent, writeable only once every earlier stream has ended (its end record handed to the request) or been skipped past, lost wake-ups decided; second sub-check: the same byte-exact reads on one task while 1..3 StreamWriters on other tasks hold the output lock.",
         "Compliant client (terminated streams in role order); all input available but delivered through scripted short / not-ready reads.",
         "DESIGN.md section 3, C09"),
 "C10": ("exploration", PBT + " with a direct-poll harness for 1..3 StreamWriters plus the request's own reply flushing",
         "Generated poll orders, write sizes (0..70000), partial / pending / vectored transports, flush readiness scripts, writers created up front or lazily, abandoned reads, Request::close at the end; every accepted write (1..=min(len,65535) bytes) is exactly one record (type, id, bytes, padding rule), per-writer order, replies intact, log decodable after every step, exactly one end-of-request sequence, lost wake-ups on the output lock decided.",
         "Each write's first byte tags (writer, call); writers are re-polled with the same buffer as AsyncWrite requires.",
         "DESIGN.md section 3, C10"),
 "C11": ("exploration", PBT + ": abort placed after every record (sync parsers) and aborted connections on the async test bed",
         "Sync: one EndRequest{RequestComplete,0} in Params phase, sticky AbortRequest with retained record in stream phase, next preamble parses to its model. Async: no handler for Params-phase aborts, ConnectionAborted for the next input read, ABRT unless the handler returned its own status, connection reuse.",
         "For aborted requests only the single EndRequest is demanded (the two stream-end records are optional).",
         "DESIGN.md section 3, C11"),
 "C12": ("fault_enumeration", "generated connection scripts x enumeration of every fault point (EOF at every byte offset, read error at every read call, write error and zero-length write at every write call)",
         "Per script a fault-free run yields N bytes, R reads, W writes; every fault point is injected in a separate deterministic execution: termination within the step bound, no handler for an incomplete preamble, no clean EOF for a truncated stream, error kinds, and for propagating handlers nothing after the failed write and a well-formed record prefix.",
         "One-shot transport errors, permanent EOF; beyond 1200 points per kind the middle is sampled evenly.",
         "DESIGN.md section 3, C12"),
 "C13": ("exploration", PBT + ": model-based state machine over get_token / poll / drop / cancel / unwind histories; real-thread stress with a timing-independent oracle",
         "After every operation: live tokens <= limit, immediate completion with a free slot and empty queue, free slot and queued requests implies a woken request; drain: every request obtains a token; up to 3000 uncontended requests in a row must each complete on the first poll. Threads sample interleavings.",
         "The atomics inside async-lock / event-listener cannot be scheduled by this technique; invariants are evaluated between operations.",
         "DESIGN.md sections 3 and 7, C13"),
 "C14": ("exploration", PBT + ": shutdown injected before every poll of generated connections; hook-forced wait-group windows; several idle connections; real threads",
         "No handler begins after the request, in-flight requests complete per the connection model, idle tasks are woken and stop without reading, the shutdown future is pending while any token lives and woken by the last drop, including drops forced between the liveness check and the waker registration through the cfg-guarded hook.",
         "Hook: two add-only scheduling points behind --cfg fastcgi_server_verif. Thread interleavings of Arc/AtomicWaker are sampled.",
         "DESIGN.md sections 3 and 7, C14"),
 "C15": ("exploration",
         "exhaustive enumeration against an independent codec (generated-input search with the finite domain fully covered)",
         "Both tiers enumerate the complete domain: all 2^31 values (write/read round-trip, byte-exact against an independently written encoder, exact consumption, also through readers that deliver the bytes in pieces), all 2^32 u32 inputs of TryFrom plus usize values beyond 32 bits, all 2^31 four-byte encodings incl. non-canonical ones, all one-byte inputs and every truncation. The property is finite, so it is decided for this build rather than sampled.",
         "Trusts the harness's own 20-line reference encoder/decoder and std's Read/Write for slices.",
         "DESIGN.md section 3, C15"),
 "C16": ("exploration", PBT + " (round-trip, independent decoder, prefix monotonicity, pointer containment) plus exhaustive short strings; thorough tier adds a libFuzzer target",
         "Round-trip of generated pair lists incl. 65535+ byte lengths; hostile byte strings; every string up to length 7 (quick) / 9 (thorough) over the boundary alphabet with every prefix; oversize lengths rejected.",
         "Oracle = independent encoder/decoder; zero-copy observed through pointer arithmetic.",
         "DESIGN.md section 3, C16"),
 "C17": ("exploration", "exhaustive per-field / per-table enumeration against independently written expected byte layouts; epilogue observed on the transport log through Request::close",
         "All (version,type) pairs, every value of each other header field, all 65536 padding computations, all roles x flag bytes, all status bytes, whole-record encoders, all 8 variable subsets x decimal-length boundaries x prefilled Vec/SmallVec targets, every ExitStatus variant; end-of-request sequence for all roles / ids / statuses via the async test bed.",
         "Field independence is sampled (each field exhaustively with the others fixed to several patterns), not the full cross product.",
         "DESIGN.md section 3, C17"),
 "C18": ("exploration", "exhaustive selection table (finite: decided) + " + PBT + " over set_stream histories with arbitrary record orders",
         "3 roles x every reachable selection x every requested selection x buffered/unbuffered; histories: delivered bytes per stream are a prefix of its content, nothing for other streams, the finally selected stream is complete (held records are not lost).",
         "Only input-stream types are passed to set_stream (documented precondition of the comparator).",
         "DESIGN.md section 3, C18"),
 "C19": ("exploration", PBT + " over name triples and constructors + exhaustive table over every interned name",
         "Equality vs. eq_ignore_ascii_case; ordering as laws (Equal exactly for equal names, antisymmetric, transitive, independent of spelling / constructor / representation - no particular order is prescribed); hash streams recorded call by call; normalising constructors; map lookups by three spellings; header-name mapping; every interned name x 81 constructor pairs x three case patterns.",
         "Interned list re-extracted from src/cgi/intern.rs at build time.",
         "DESIGN.md section 3, C19"),
 "C20": ("exploration", "exhaustive over all status codes + " + PBT + " over header lists, against an independently assembled grammar and every destination capacity",
         "write_headers / simple_redirect / http_headers: exact bytes, exact count, and for every capacity 0..=len+1: fails iff too small, written prefix is a prefix of the expected text.",
         "Reason phrases from http::StatusCode::canonical_reason (dependency, not under test).",
         "DESIGN.md section 3, C20"),
}

REASON_PENDING = "check under construction in this session (see DESIGN.md section 3); will be claimed once built"

# additions of the round-4 seeded evaluation (appended to the level text)
ROUND4 = {
 "C02": " Reply storms (260..1400 body-less unknown-type records at one position) with callers that drain the reply buffer partially or not at all.",
 "C03": " The caller's drain schedule of the reply buffer (all / all but one byte / a few bytes per call / nothing until the end) differs between the runs compared; reply storms as in C02.",
 "C05": " Reply storms as in C02.",
 "C09": " Reads also through poll_read_vectored (two slices, optional empty slices in front / between).",
 "C10": " Writes also through poll_write_vectored (2..4 slices incl. empty ones): the reported count is a prefix of the concatenation and one record.",
 "C11": " AbortRequest records with bodies up to 65535 bytes and padding up to 255 (tail beyond 16 bits).",
 "C13": " Served connections include ones parked inside Request::close after their handler returned (token still alive, with and without KEEP_CONN).",
 "C14": " Sub-check aborted_connections: connections on which the client aborts most requests, shutdown before every poll, shutdown-future clauses only.",
 "C16": " The crate is built with trace-more and an evaluate-everything tracing subscriber is installed (all checks), so log statements' field expressions run on hostile input too.",
 "C17": " Sub-check get_values_result_sequences: replies for configurations whose limits agree in low/high bits or digit count, back to back on one thread.",
 "C19": " Names with equal XOR deltas at positions 1..40 apart (2..4 of them) and swapped characters, multi-block names.",
 "C20": " Sub-check header_lengths: every status code x every total length 0..=520 (thorough 2100) of one header, first or behind short headers.",
}
for _k, _v in ROUND4.items():
    _c = CLAIMED[_k]
    CLAIMED[_k] = (_c[0], _c[1], _c[2] + _v, _c[3], _c[4])

def hook_commits():
    try:
        out = subprocess.run(["git", "-C", "/repo", "log", "--format=%H %s"], capture_output=True, text=True).stdout
        return [l.split()[0] for l in out.splitlines() if "verif hook" in l.lower() or l.split(" ", 1)[1].startswith("verif:")]
    except Exception:
        return []

checks = []
for i in ids:
    if i not in CLAIMED:
        continue
    cat, tech, text, note, ref = CLAIMED[i]
    checks.append({
        "property_id": i,
        "quick_cmd": f"./check {i} quick",
        "thorough_cmd": f"./check {i} thorough",
        "evidence_file": f"/verif/evidence/{i}.json",
        "replay_cmd_template": f"./check {i} --replay {{path}}",
        "engine": "verif-check",
        "level_claimed": {"category": cat, "text": text, "design_ref": ref},
        "level_note": note,
        "technique": tech,
    })

manifest = {
    "version": 1,
    "setup_cmd": "./setup.sh",
    "hooks": {
        "guard": "--cfg fastcgi_server_verif",
        "enable": "rustflags = [\"--cfg\", \"fastcgi_server_verif\"] in /verif/harness/.cargo/config.toml (and /verif/fuzz/.cargo/config.toml); every ./check invocation rebuilds /repo with it",
        "baseline_off_cmd": "cd /repo && cargo test --workspace --no-fail-fast --offline",
        "source_commits": hook_commits(),
        "add_only": True,
    },
    "engines": [
        {"name": "verif-check", "path": "harness/", "serves_properties": ids,
         "kind_free_text": "Rust property-based testing engine: sharded proptest runners (fixed seeds, shrinking, JSON replay files), exhaustive enumerators, deterministic async executor with scripted transports, independent wire codec and reference models"},
        {"name": "fuzz", "path": "fuzz/", "serves_properties": ["C01", "C02", "C03", "C04", "C16"],
         "kind_free_text": "cargo-fuzz / libFuzzer targets with the semantic oracle inside the target (thorough tier)"},
    ],
    "checks": checks,
    "not_applicable": [{"property_id": i, "reason": REASON_PENDING} for i in ids if i not in CLAIMED],
    "notes": "All checks: ./check <ID> quick|thorough; exit 0 held / 1 VIOLATION line / 2 infrastructure. VERIF_SEED and VERIF_TIER are honoured. See DESIGN.md.",
}
json.dump(manifest, open(os.path.join(ROOT, "MANIFEST.json"), "w"), indent=1)
print("claimed:", [c["property_id"] for c in checks])
