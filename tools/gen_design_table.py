#!/usr/bin/env python3
"""Rewrites the 'as built' table in DESIGN.md section 3 from the committed evidence files."""
import json, os, re
root = os.path.dirname(os.path.dirname(os.path.abspath(__file__)))
rows = []
for i in range(1, 21):
    pid = f"C{i:02d}"
    try:
        ev = json.load(open(os.path.join(root, "evidence", pid + ".json")))
    except Exception:
        continue
    c = ev["coverage"]
    subs = ", ".join(s["name"] for s in c.get("sub_checks", []))
    rows.append(f"| {pid} | {subs} | {c['evaluations']:,} | {c['distinct_nontrivial']:,} | {ev['wall_s']:.1f} s |")
p = os.path.join(root, "DESIGN.md")
s = open(p).read()
head = "| id | sub-checks | quick evaluations | distinct non-trivial | quick wall |\n|---|---|---|---|---|\n"
a = s.index(head) + len(head)
b = s.index("\n\n", a)
s = s[:a] + "\n".join(rows) + s[b:]
open(p, "w").write(s)
print("table rows", len(rows))
