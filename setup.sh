#!/bin/bash
# Offline build of the verification harness (and nothing else).
set -e
cd "$(dirname "$0")/harness"
export CARGO_NET_OFFLINE=true
cargo build --release --offline 2>&1 | tail -3
