#!/bin/bash
# Thorough-tier fuzz campaigns (called by ./check <ID> thorough after the generated checks passed).
# libFuzzer with the semantic oracle inside the target; fresh corpus + committed seeds; -seed/-runs
# pin the campaign approximately. A crash = oracle failure or panic in the crate: the artefact is
# copied to /verif/replays/<ID>/ and reported as VIOLATION. Build problems exit 2.
set -u
ID="${1:?property id}"
case "$ID" in
  C01|C03) TARGETS="fz_request fz_stream" ;;
  C02|C04) TARGETS="fz_stream fz_request" ;;
  C16) TARGETS="fz_nv" ;;
  *) exit 0 ;;
esac
ROOT="$(cd "$(dirname "$0")/.." && pwd)"
RUNS="${VERIF_FUZZ_RUNS:-120000}"
SEED="${VERIF_SEED:-20260925}"
[ "$SEED" = "0" ] && SEED=1
cd "$ROOT/harness" || exit 2
export CARGO_NET_OFFLINE=true
if ! RUSTFLAGS="--cfg fastcgi_server_verif" cargo +nightly fuzz build --fuzz-dir ../fuzz >"$ROOT/fuzz/.build.log" 2>&1; then
  echo "BUILD-FAILED: fuzz targets do not compile (not a verdict)" >&2; tail -20 "$ROOT/fuzz/.build.log" >&2; exit 2
fi
rc=0
pids=""
for T in $TARGETS; do
  (
    CORPUS="$(mktemp -d "$ROOT/fuzz/corpus.$T.XXXXXX")"
    ART="$(mktemp -d "$ROOT/fuzz/artifacts.$T.XXXXXX")"
    LOG="$ROOT/fuzz/.run.$ID.$T.log"
    BIN="$ROOT/fuzz/target/x86_64-unknown-linux-gnu/release/$T"
    "$BIN" "$CORPUS" "$ROOT/fuzz/seeds/$T" -runs="$RUNS" -seed="$SEED" -len_control=0 -max_len=4096 \
        -print_final_stats=1 -artifact_prefix="$ART/" -timeout=300 -rss_limit_mb=4096 >"$LOG" 2>&1
    code=$?
    # crash-* / leak-* = oracle failure or panic; timeout-* is a verdict only for C03 ("without
    # hanging"); oom-* and timeouts elsewhere are resource limits, i.e. inconclusive (exit 2);
    # slow-unit-* files are informational
    crash="$(ls "$ART" 2>/dev/null | grep -E '^(crash|leak)-' | head -1)"
    limit="$(ls "$ART" 2>/dev/null | grep -E '^(timeout|oom)-' | head -1)"
    skip_rc=""
    if [ -z "$crash" ] && [ -n "$limit" ]; then
      if [ "$ID" = "C03" ] && [ "${limit#timeout-}" != "$limit" ]; then
        crash="$limit"
      else
        echo "INCONCLUSIVE: $T produced $limit (resource limit, not a verdict for $ID)" >&2
        echo 2 > "$ART/.rc"; skip_rc=1
      fi
    fi
    if [ -n "${skip_rc:-}" ]; then
      :
    elif [ -n "$crash" ]; then
      mkdir -p "$ROOT/replays/$ID"
      dest="$ROOT/replays/$ID/fuzz-$T-$(sha1sum "$ART/$crash" | cut -c1-12)"
      cp "$ART/$crash" "$dest"
      grep -E "ORACLE-FAILURE|panicked" "$LOG" | head -3
      echo "VIOLATION property=$ID replay=$dest"
      echo 1 > "$ART/.rc"
    elif [ $code -ne 0 ]; then
      echo "INFRA: $T exited with $code without an artefact" >&2; tail -5 "$LOG" >&2
      echo 2 > "$ART/.rc"
    else
      echo 0 > "$ART/.rc"
    fi
    execs="$(grep -E 'stat::number_of_executed_units' "$LOG" | awk '{print $2}')"
    cov="$(grep -E ' cov: ' "$LOG" | tail -1 | sed -n 's/.* cov: \([0-9]*\).* ft: \([0-9]*\).*/\1 \2/p')"
    echo "$T ${execs:-0} ${cov:-0 0} $(cat "$ART/.rc")" > "$ROOT/fuzz/.stats.$ID.$T"
    rm -rf "$CORPUS" "$ART"
  ) &
  pids="$pids $!"
done
for p in $pids; do wait "$p"; done
python3 - "$ROOT" "$ID" $TARGETS <<'PY'
import json,sys,os
root,pid=sys.argv[1:3]; targets=sys.argv[3:]
ev_path=os.path.join(root,"evidence",pid+".json")
try: ev=json.load(open(ev_path))
except Exception: sys.exit(0)
fz=[]; rc=0; total=0
for t in targets:
    try:
        name,execs,cov,ft,r=open(os.path.join(root,"fuzz",f".stats.{pid}.{t}")).read().split()
    except Exception: continue
    fz.append({"target":name,"executions":int(execs),"coverage_edges":int(cov),"features":int(ft),"crashed":r=="1"})
    total+=int(execs); rc=max(rc,int(r))
ev["coverage"]["fuzz"]=fz
ev["coverage"]["evaluations"]+=total
ev["coverage"]["rule"]+=" [fuzz] coverage-guided libFuzzer campaigns (fresh corpus + committed seeds, oracle inside the target); executions are added to evaluations, not to distinct_nontrivial"
if rc==1: ev["violations"]=ev.get("violations",0)+1
json.dump(ev,open(ev_path,"w"),indent=2)
sys.exit(rc)
PY
exit $?
