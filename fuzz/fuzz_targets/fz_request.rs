#![no_main]
//! Raw bytes into the request parser (and on into the stream parser when a request results),
//! with the C03 chunking-invariance / stickiness / totality oracle inside the target.
use libfuzzer_sys::fuzz_target;
mod common;

fuzz_target!(|data: &[u8]| {
    if data.len() < 4 || data.len() > 4096 {
        return;
    }
    common::run([data[0], data[1], data[2], data[3]], data[4..].to_vec());
});
