#![no_main]
//! A valid preamble (role / id / flags taken from the input) is prepended so that the fuzzer's
//! bytes land in the stream parser; same oracle as fz_request.
use libfuzzer_sys::fuzz_target;
mod common;

fuzz_target!(|data: &[u8]| {
    if data.len() < 6 || data.len() > 4096 {
        return;
    }
    let role = 1 + (data[4] % 3) as u16;
    let id = if data[5] & 1 == 0 { 1u16 } else { 0x0100 | data[5] as u16 };
    let mut wire = vec![1, 1, (id >> 8) as u8, id as u8, 0, 8, 0, 0, 0, role as u8, data[5] >> 7, 0, 0, 0, 0, 0];
    // one small pair, then the end of the Params stream
    wire.extend_from_slice(&[1, 4, (id >> 8) as u8, id as u8, 0, 4, 0, 0, 1, 1, b'k', b'v']);
    wire.extend_from_slice(&[1, 4, (id >> 8) as u8, id as u8, 0, 0, 0, 0]);
    wire.extend_from_slice(&data[6..]);
    common::run([data[0], data[1], data[2], data[3]], wire);
});
