// Shared by fz_request / fz_stream: turns fuzzer bytes into a C03 case (control prefix + traffic)
// and runs the C03 metamorphic oracle on it. A failed relation aborts the process, which
// libFuzzer records as a crash with the offending input.
use fcgi_verif::gen::{Blob, Chunking};
use fcgi_verif::props::c03::{self, Base, Case};
use fcgi_verif::wire::Hex;

pub fn chunking(b: u8) -> Chunking {
    match b % 8 {
        0 => Chunking::Max,
        1 => Chunking::One,
        2 => Chunking::Cycle(vec![2, 3]),
        3 => Chunking::Cycle(vec![7, 1, 9]),
        4 => Chunking::Cycle(vec![8]),
        5 => Chunking::Cycle(vec![24, 5]),
        6 => Chunking::Cycle(vec![(b as u16 >> 3) + 1]),
        _ => Chunking::Cycle(vec![300, 2, 41]),
    }
}

pub fn run(control: [u8; 4], traffic: Vec<u8>) {
    let buf = [0u32, 24, 32, 64, 256, 8192, 40, 1024][control[0] as usize % 8];
    let case = Case {
        base: Base::Random(Blob::Lit(Hex(traffic))),
        muts: vec![],
        buf,
        max_conns: 1 + (control[0] as u32 >> 3),
        chunkings: vec![Chunking::Max, Chunking::One, chunking(control[1]), chunking(control[2])],
        dest_cap: 1 + control[3] as u16,
        probes: vec![control[3] % 64],
    };
    if let Err(f) = c03::test(&case) {
        if f.sig == "harness-inconsistent" {
            return;
        }
        eprintln!("ORACLE-FAILURE [{}] {}", f.sig, f.msg);
        std::process::abort();
    }
}
