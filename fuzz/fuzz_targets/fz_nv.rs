#![no_main]
//! Name-value decoder on arbitrary bytes: independent decoder, pointer containment, fusedness,
//! undecoded suffix, & / &mut agreement, prefix monotonicity over every prefix.
use fcgi_verif::props::c16;
use libfuzzer_sys::fuzz_target;

fuzz_target!(|data: &[u8]| {
    if data.len() > 600 {
        return;
    }
    let r = c16::check_decode(data).and_then(|_| c16::check_mut_agrees(data)).and_then(|_| c16::check_prefixes(data, true).map(|_| ()));
    if let Err(f) = r {
        eprintln!("ORACLE-FAILURE [{}] {}", f.sig, f.msg);
        std::process::abort();
    }
});
