#!/bin/bash
# ./check <ID> --replay <fuzz artefact>: re-runs the fuzz target on one saved input.
set -u
ID="${1:?id}"; FILE="${2:?file}"
ROOT="$(cd "$(dirname "$0")/.." && pwd)"
T="$(basename "$FILE" | sed -n 's/^fuzz-\(fz_[a-z]*\)-.*/\1/p')"
[ -z "$T" ] && { echo "cannot tell the fuzz target from the file name $FILE" >&2; exit 2; }
cd "$ROOT/harness" || exit 2
export CARGO_NET_OFFLINE=true
RUSTFLAGS="--cfg fastcgi_server_verif" cargo +nightly fuzz build --fuzz-dir ../fuzz >"$ROOT/fuzz/.build.log" 2>&1 || { echo "BUILD-FAILED" >&2; exit 2; }
out="$("$ROOT/fuzz/target/x86_64-unknown-linux-gnu/release/$T" "$FILE" 2>&1)"; code=$?
if [ $code -ne 0 ]; then
  echo "$out" | grep -E "ORACLE-FAILURE|panicked" | head -3
  echo "VIOLATION property=$ID replay=$FILE"; exit 1
fi
echo "replay passed: property=$ID target=$T"; exit 0
